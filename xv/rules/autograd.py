"""Autograd-Function contract engine (AC1..AC8): structural necessary conditions of every
custom torch.autograd.Function in the package and of the wrappers that call `.apply`."""
from __future__ import annotations
import ast
from typing import List, Optional, Dict, Set, Tuple
from ..model import Model, FuncInfo, ClassInfo, own_nodes, norm_stmt, AnalysisError, AnchorError, \
    enclosing_function, enclosing_stmt, parent, ancestors
from ..report import RuleResult
from ..flow import function_defs, names_loaded, def_use_closure, stmt_defs, free_names_of_def, origins
from ..callgraph import resolve_call, lookup_local_function

EXPECTED_CLASSES = {"solve_torchfcn", "symeig_torchfcn", "degen_symeig", "_RootFinder", "_SolveIVP",
                    "_Quadrature", "_MCQuad"}


class FnCls:
    def __init__(self, ci: ClassInfo):
        self.ci = ci
        fw = ci.methods.get("forward")
        bw = ci.methods.get("backward")
        if fw is None or bw is None:
            raise AnalysisError("%s: autograd.Function without forward/backward" % ci.fq)
        self.forward: FuncInfo = fw
        self.backward: FuncInfo = bw
        ps = fw.params()
        if not ps:
            raise AnalysisError("%s.forward has no ctx parameter" % ci.fq)
        self.ctx = ps[0]
        self.fixed: List[str] = ps[1:]
        self.vararg: Optional[str] = fw.vararg()
        self.bctx = bw.params()[0]

    @property
    def name(self):
        return self.ci.name


def function_classes(model: Model) -> List[FnCls]:
    out = []
    for c in model.all_classes():
        if any(b.endswith("autograd.Function") for b in c.base_exprs):
            out.append(FnCls(c))
    names = {f.name for f in out}
    missing = EXPECTED_CLASSES - names
    if missing:
        raise AnchorError("autograd.Function classes vanished: %s" % sorted(missing))
    return sorted(out, key=lambda f: f.ci.fq)


def get_fncls(model: Model, name: str) -> FnCls:
    for f in function_classes(model):
        if f.name == name:
            return f
    raise AnchorError("autograd.Function %s not found" % name)


def apply_sites(model: Model, fc: FnCls) -> List[Tuple[FuncInfo, ast.Call]]:
    out = []
    for f in model.all_functions():
        for c in own_nodes(f.node):
            if isinstance(c, ast.Call) and isinstance(c.func, ast.Attribute) and c.func.attr == "apply":
                r = model.resolve_expr(f.module, c.func.value)
                if r and r[0] == "class" and r[1] is fc.ci:
                    out.append((f, c))
    return out


def own_returns(fi: FuncInfo) -> List[ast.Return]:
    return [n for n in own_nodes(fi.node) if isinstance(n, ast.Return)]


def _is_none(e) -> bool:
    return isinstance(e, ast.Constant) and e.value is None


# ------------------------------------------------------------------------------------------ AC1
def _ac1_segment_lengths(fc: FnCls, R: RuleResult):
    """AC1-L: autograd checks the *number* of gradients at run time, so every starred segment of backward's result must have the length of
    the segment forward received on every path.  A definition tied to the input list (autograd.grad(.., inputs=L), a comprehension over L,
    reconstruct_params) has it by construction; an *empty literal* default that a conditional definition overrides is right only if the
    condition is exactly "the owner of the segment is present" (one `is not None` atom): with a further conjunct (`M is not None and E is not
    None`) there is a path on which the owner is present, forward received its tensors, and backward returns none of them - autograd raises
    "returned an incorrect number of gradients" for that combination of arguments."""
    from ..flow import function_defs
    from ..model import ancestors as _anc
    bw = fc.backward
    defs = function_defs(bw.node)
    for r in own_returns(bw):
        if not isinstance(r.value, ast.Tuple):
            continue
        for e in r.value.elts:
            if not (isinstance(e, ast.Starred) and isinstance(e.value, ast.Name)):
                continue
            nm = e.value.id
            ds = [d for d in defs.get(nm, []) if isinstance(d, ast.AST)]
            empties = [d for d in ds if isinstance(d, (ast.List, ast.Tuple)) and not d.elts]
            others = [d for d in ds if d not in empties]
            if not empties:
                R.ok(bw.fq, "*%s: every definition is tied to the length of the input segment" % nm)
                continue
            if not others:
                R.bad(bw, r, "*%s is always empty although forward has a starred segment at this position" % nm)
                continue
            bad_atoms = None
            for d in others:
                atoms = []
                node = d
                for a in _anc(d):
                    if a is bw.node:
                        break
                    if isinstance(a, ast.If) and any(node_ is x for x in ast.walk(ast.Module(body=a.body, type_ignores=[])) for node_ in [d]):
                        t = a.test
                        atoms.extend(t.values if isinstance(t, ast.BoolOp) and isinstance(t.op, ast.And) else [t])
                single = len(atoms) == 1 and isinstance(atoms[0], ast.Compare) and len(atoms[0].ops) == 1 and isinstance(atoms[0].ops[0], ast.IsNot) \
                    and isinstance(atoms[0].comparators[0], ast.Constant) and atoms[0].comparators[0].value is None
                if not single:
                    bad_atoms = atoms
            if bad_atoms is None:
                R.ok(bw.fq, "*%s: the empty default is overridden exactly when the owner of the segment is present" % nm)
            else:
                R.bad(bw, r, "*%s defaults to an empty list and is only filled under `%s`: on a path where the segment's owner is present but another conjunct fails, forward "
                      "received that segment's tensors and backward returns none of them (autograd: \"returned an incorrect number of gradients\")"
                      % (nm, " and ".join(ast.unparse(a_) for a_ in bad_atoms)))


def ac1_arity(model: Model, fc: FnCls, R: RuleResult):
    nfix = len(fc.fixed)
    if any(isinstance(e, ast.Starred) for r_ in own_returns(fc.backward) if isinstance(r_.value, ast.Tuple) for e in r_.value.elts):
        _ac1_segment_lengths(fc, R)
    for r in own_returns(fc.backward):
        v = r.value
        if v is None:
            R.bad(fc.backward, r, "backward returns nothing")
            continue
        if isinstance(v, ast.Tuple):
            lead = 0
            for e in v.elts:
                if isinstance(e, ast.Starred):
                    break
                lead += 1
            stars = sum(isinstance(e, ast.Starred) for e in v.elts)
            trailing_plain = any(not isinstance(e, ast.Starred) for e in v.elts[lead:])
            ok = lead == nfix and (stars > 0) == (fc.vararg is not None) and not trailing_plain
            what = "%s.backward returns %d fixed + %d starred gradients for forward(%s%s)" % (
                fc.name, lead, stars, ", ".join(fc.fixed), ", *" + fc.vararg if fc.vararg else "")
            if ok:
                R.ok(fc.backward.fq, what)
            else:
                R.bad(fc.backward, r, "backward must return one gradient per forward input: %d fixed%s, got %d fixed and %d starred"
                      % (nfix, " + starred" if fc.vararg else "", lead, stars), what=what)
        else:
            what = "%s.backward returns a single value for forward(%s)" % (fc.name, ", ".join(fc.fixed))
            if nfix == 1 and fc.vararg is None:
                R.ok(fc.backward.fq, what)
            else:
                R.bad(fc.backward, r, "backward returns a single value but forward takes %d inputs" % nfix, what=what)
    sites = apply_sites(model, fc)
    for f, c in sites:
        lead = 0
        for a in c.args:
            if isinstance(a, ast.Starred):
                break
            lead += 1
        plain_after = any(not isinstance(a, ast.Starred) for a in c.args[lead:])
        what = "%s.apply(...) passes %d leading positionals (+%d starred)" % (fc.name, lead, len(c.args) - lead)
        if lead == nfix and not plain_after and not c.keywords and ((len(c.args) > lead) <= (fc.vararg is not None)):
            R.ok(f.fq, what)
        else:
            R.bad(f, enclosing_stmt(c), "apply call does not match forward's signature (%d fixed inputs%s)" %
                  (nfix, ", *" + fc.vararg if fc.vararg else ""), what=what)
    return len(sites)


# ------------------------------------------------------------------------------------------ AC2
# slots that may receive a gradient (everything else must be the literal None)
GRAD_SLOTS = {
    "solve_torchfcn": {"B", "E"},
    "symeig_torchfcn": set(),
    "_RootFinder": set(),          # "the initial guess and non-tensor parameters receive no gradient"
    "_SolveIVP": {"ts", "y0"},
    "_Quadrature": {"xl", "xu"},
    "_MCQuad": set(),
}


def ac2_frozen_none(fc: FnCls, R: RuleResult):
    allowed = GRAD_SLOTS.get(fc.name)
    if allowed is None:
        return
    for r in own_returns(fc.backward):
        v = r.value
        if not isinstance(v, ast.Tuple):
            continue
        for i, e in enumerate(v.elts):
            if isinstance(e, ast.Starred) or i >= len(fc.fixed):
                break
            slot = fc.fixed[i]
            if slot in allowed:
                R.ok(fc.backward.fq, "slot %d (%s) may carry a gradient: %s" % (i, slot, ast.unparse(e)))
            elif _is_none(e):
                R.ok(fc.backward.fq, "slot %d (%s) is None" % (i, slot))
            else:
                R.bad(fc.backward, r, "gradient slot %d (`%s`) must be the literal None (no gradient flows to it), got `%s`"
                      % (i, slot, ast.unparse(e)))


# ------------------------------------------------------------------------------------------ AC3
def is_autograd_grad(c: ast.Call) -> bool:
    return isinstance(c, ast.Call) and ast.unparse(c.func) in ("torch.autograd.grad", "autograd.grad")


def _kw(c: ast.Call, name: str) -> Optional[ast.AST]:
    for k in c.keywords:
        if k.arg == name:
            return k.value
    return None


def _is_grad_enabled_expr(e: ast.AST, owner: ast.AST) -> bool:
    """`torch.is_grad_enabled()` directly, literal True, or a local name whose every definition in the
    (enclosing) function is `torch.is_grad_enabled()`"""
    if isinstance(e, ast.Constant) and e.value is True:
        return True
    if isinstance(e, ast.Call) and ast.unparse(e.func) == "torch.is_grad_enabled" and not e.args:
        return True
    if isinstance(e, ast.Name):
        fn = owner
        while fn is not None:
            ds = function_defs(fn).get(e.id)
            if ds:
                return all(_is_grad_enabled_expr(d, fn) for d in ds if not isinstance(d, ast.Name) or d.id != e.id)
            fn = enclosing_function(fn)
    return False


AC3_EXEMPT = {
    # (file, qualname): reason
    ("xitorch/_core/editable_module.py", "EditableModule.__list_operating_params"):
        "debug helper that only inspects which tensors are connected; result is never differentiated",
}


def ac3_create_graph(model: Model, R: RuleResult, files: Optional[Set[str]] = None, quals: Optional[Set[str]] = None):
    n = 0
    for f in model.all_functions():
        if files is not None and f.module.relpath not in files:
            continue
        if quals is not None and not any(f.qualname == q or f.qualname.startswith(q + ".") for q in quals):
            continue
        for c in own_nodes(f.node):
            if is_autograd_grad(c):
                n += 1
                if (f.module.relpath, f.qualname) in AC3_EXEMPT:
                    R.ok(f.fq, "exempt: " + AC3_EXEMPT[(f.module.relpath, f.qualname)])
                    continue
                cg = _kw(c, "create_graph")
                what = "autograd.grad(..., create_graph=%s)" % (ast.unparse(cg) if cg is not None else "<absent>")
                if cg is not None and _is_grad_enabled_expr(cg, f.node):
                    R.ok(f.fq, what)
                else:
                    R.bad(f, enclosing_stmt(c), "autograd.grad must record the graph when the caller differentiates again: "
                          "create_graph has to be torch.is_grad_enabled() (or True), got %s" %
                          (ast.unparse(cg) if cg is not None else "no create_graph argument"), what=what)
    return n


# ------------------------------------------------------------------------------------------ AC4
AC4_EXEMPT = {
    "symeig_torchfcn": "symeig pull-backs deliberately omit allow_unused (documented in the source); property C06 is not claimed",
}


def grads_in_backward(fc: FnCls) -> List[Tuple[FuncInfo, ast.Call]]:
    out = []
    mod = fc.backward.module
    for f in mod.functions.values():
        if f is fc.backward or f.qualname.startswith(fc.backward.qualname + "."):
            for c in own_nodes(f.node):
                if is_autograd_grad(c):
                    out.append((f, c))
    return out


def ac4_allow_unused(fc: FnCls, R: RuleResult):
    if fc.name in AC4_EXEMPT:
        return 0
    n = 0
    for f, c in grads_in_backward(fc):
        n += 1
        au = _kw(c, "allow_unused")
        what = "pull-back autograd.grad in %s: allow_unused=%s" % (f.qualname, ast.unparse(au) if au is not None else "<absent>")
        if au is not None and isinstance(au, ast.Constant) and au.value is True:
            R.ok(f.fq, what)
        else:
            R.bad(f, enclosing_stmt(c), "the pull-back w.r.t. the caller's tensors must pass allow_unused=True, otherwise a tensor that "
                  "does not influence the output raises instead of receiving a zero/absent gradient", what=what)
    return n


def ac4_none_conversion(fc: FnCls, R: RuleResult, recursive_callees: Optional[Set[str]] = None):
    """If the result of an allow_unused pull-back made inside a closure of backward is flattened /
    concatenated (handed to a packer, or the closure is the integrand of a recursive functional whose
    tuple outputs are packed), None entries must be converted to zeros first."""
    n = 0
    recursive_callees = recursive_callees or set()
    for f, c in grads_in_backward(fc):
        if f is fc.backward:
            continue      # gradients returned directly to autograd may be None
        st = enclosing_stmt(c)
        if not (isinstance(st, ast.Assign) and isinstance(st.targets[0], ast.Name)):
            continue
        name = st.targets[0].id
        flattened = _result_is_flattened(fc, f) or _passed_to(fc, f, recursive_callees)
        if not flattened:
            continue
        n += 1
        conv = False
        for c2 in own_nodes(f.node):
            if isinstance(c2, ast.Call) and ast.unparse(c2.func).split(".")[-1] == "convert_none_grads_to_zeros" and c2.args \
                    and isinstance(c2.args[0], ast.Name) and c2.args[0].id == name:
                st2 = enclosing_stmt(c2)
                # `name = convert(name, ..)` (later uses see the converted list) or `return convert(name, ..)`
                if (isinstance(st2, ast.Assign) and st2.value is c2 and isinstance(st2.targets[0], ast.Name) and st2.targets[0].id == name) \
                        or (isinstance(st2, ast.Return) and st2.value is c2):
                    conv = True
        # no exit hands out the unconverted list
        if conv and any(isinstance(r, ast.Return) and isinstance(r.value, ast.Name) and r.value.id == name
                        and not any(isinstance(s2, ast.Assign) and isinstance(s2.targets[0], ast.Name) and s2.targets[0].id == name and isinstance(s2.value, ast.Call)
                                    and ast.unparse(s2.value.func).split(".")[-1] == "convert_none_grads_to_zeros" for s2 in own_nodes(f.node))
                        for r in own_nodes(f.node)):
            conv = False
        what = "gradients `%s` in %s are flattened by the caller; None entries converted to zeros" % (name, f.qualname)
        if conv:
            R.ok(f.fq, what)
        else:
            R.bad(f, st, "the allow_unused pull-back result `%s` is flattened/concatenated later but None entries are not "
                  "converted to zeros first (a tensor that does not influence the output would raise)" % name, what=what)
    return n


def _passed_to(fc: FnCls, f: FuncInfo, callees: Set[str]) -> bool:
    bw = fc.backward
    for c in own_nodes(bw.node):
        if isinstance(c, ast.Call) and ast.unparse(c.func) in callees and c.args \
                and isinstance(c.args[0], ast.Name) and c.args[0].id == f.name:
            return True
    return False


def _result_is_flattened(fc: FnCls, f: FuncInfo) -> bool:
    """f's return value is passed to `<packer>.flatten(...)` somewhere in backward"""
    bw = fc.backward
    for g in bw.module.functions.values():
        if g is bw or g.qualname.startswith(bw.qualname + "."):
            for c in own_nodes(g.node):
                if isinstance(c, ast.Call) and isinstance(c.func, ast.Attribute) and c.func.attr == "flatten" and c.args:
                    a = c.args[0]
                    if isinstance(a, ast.Name):
                        ds = function_defs(g.node).get(a.id, [])
                        for d in ds:
                            if isinstance(d, ast.Call) and isinstance(d.func, ast.Name) and d.func.id == f.name:
                                return True
    return False


# ------------------------------------------------------------------------------------------ AC5
def ctx_option_attrs(fc: FnCls) -> Set[str]:
    """ctx attributes that hold the backward options: assigned in forward from an expression that mentions the `bck_options`
    parameter - directly, or through a local dictionary that was built from / updated with it (`d = dict(..); d.update(bck_options);
    ctx.x = d`)"""
    out = set()
    fn = fc.forward.node
    tainted = {"bck_options"}
    changed = True
    while changed:
        changed = False
        for s in own_nodes(fn):
            if isinstance(s, ast.Assign) and len(s.targets) == 1 and isinstance(s.targets[0], ast.Name) and s.targets[0].id not in tainted \
                    and names_loaded(s.value) & tainted:
                tainted.add(s.targets[0].id)
                changed = True
            if isinstance(s, ast.Expr) and isinstance(s.value, ast.Call) and isinstance(s.value.func, ast.Attribute) and s.value.func.attr in ("update", "setdefault") \
                    and isinstance(s.value.func.value, ast.Name) and s.value.func.value.id not in tainted \
                    and any(names_loaded(a) & tainted for a in list(s.value.args) + [k.value for k in s.value.keywords]):
                tainted.add(s.value.func.value.id)
                changed = True
    for s in own_nodes(fn):
        if isinstance(s, ast.Assign):
            for t in s.targets:
                if isinstance(t, ast.Attribute) and isinstance(t.value, ast.Name) and t.value.id == fc.ctx:
                    if names_loaded(s.value) & tainted:
                        out.add(t.attr)
        if isinstance(s, ast.Expr) and isinstance(s.value, ast.Call) and isinstance(s.value.func, ast.Attribute) and s.value.func.attr == "update":
            recv = s.value.func.value
            if isinstance(recv, ast.Attribute) and isinstance(recv.value, ast.Name) and recv.value.id == fc.ctx \
                    and any(names_loaded(a) & tainted for a in s.value.args):
                out.add(recv.attr)
    return out


def _alias_of_ctx_attr(e: ast.AST, fn: ast.AST, ctxname: str, attrs: Set[str], depth=0) -> bool:
    if isinstance(e, ast.Attribute) and isinstance(e.value, ast.Name) and e.value.id == ctxname and e.attr in attrs:
        return True
    if isinstance(e, ast.Call) and ast.unparse(e.func) in ("copy.copy", "dict", "copy") and e.args:
        return _alias_of_ctx_attr(e.args[0], fn, ctxname, attrs, depth + 1)
    if isinstance(e, ast.Name) and depth < 5:
        ds = function_defs(fn).get(e.id, [])
        return bool(ds) and all(_alias_of_ctx_attr(d, fn, ctxname, attrs, depth + 1) for d in ds)
    return False


def ac5_options_forwarding(model: Model, fc: FnCls, R: RuleResult, callee_names: Set[str]):
    """In backward, the recursive functional call receives the saved backward options by ** splat
    (or, for a direct Function.apply, in the forward-options slot)."""
    attrs = ctx_option_attrs(fc)
    if not attrs:
        raise AnalysisError("%s.forward does not store the backward options on ctx" % fc.name)
    bw = fc.backward
    n = 0
    for c in own_nodes(bw.node):
        if not isinstance(c, ast.Call):
            continue
        fname = ast.unparse(c.func)
        if fname in callee_names:
            n += 1
            splat = [k for k in c.keywords if k.arg is None]
            ok = any(_alias_of_ctx_attr(k.value, bw.node, fc.bctx, attrs) for k in splat)
            what = "%s(...) in %s.backward: options splatted: %s" % (fname, fc.name, [ast.unparse(k.value) for k in splat])
            if ok:
                R.ok(bw.fq, what)
            else:
                R.bad(bw, enclosing_stmt(c), "the inner %s call in backward must receive the saved backward options "
                      "(ctx.%s) by ** splat so that they select/configure the method" % (fname, "/".join(sorted(attrs))), what=what)
        elif fname.endswith(".apply") and isinstance(c.func, ast.Attribute):
            r = model.resolve_expr(bw.module, c.func.value)
            if r and r[0] == "class" and r[1] is fc.ci and "fwd_options" in fc.fixed:
                n += 1
                i = fc.fixed.index("fwd_options")
                ok = i < len(c.args) and _alias_of_ctx_attr(c.args[i], bw.node, fc.bctx, attrs)
                what = "recursive %s.apply: forward-options slot receives %s" % (fc.name, ast.unparse(c.args[i]) if i < len(c.args) else None)
                if ok:
                    R.ok(bw.fq, what)
                else:
                    R.bad(bw, enclosing_stmt(c), "recursive apply must run with the saved backward options", what=what)
    return n


# ------------------------------------------------------------------------------------------ C13-K (generic)
def keyword_swallow(model: Model, R: RuleResult):
    """A call passes keyword k= to a callee that has no parameter k but a **k var-keyword parameter of the
    same name: the options dictionary is swallowed as a single entry (the caller meant **k)."""
    n = 0
    for f in model.all_functions():
        for c in own_nodes(f.node):
            if not isinstance(c, ast.Call) or not c.keywords:
                continue
            callee = resolve_call(model, f, c, by_unique_name=False)
            if callee is None or callee.kwarg() is None:
                continue
            n += 1
            names = set(callee.all_params())
            for k in c.keywords:
                if k.arg is not None and k.arg == callee.kwarg() and k.arg not in names:
                    R.bad(f, enclosing_stmt(c), "keyword `%s=` is swallowed by `**%s` of %s: the dictionary arrives as one "
                          "option named '%s' and its entries are lost (use **)" % (k.arg, callee.kwarg(), callee.qualname, k.arg))
                    break
            else:
                R.ok(f.fq, "call of %s(**%s): no keyword shadows the var-keyword parameter" % (callee.qualname, callee.kwarg()))
    return n


# ------------------------------------------------------------------------------------------ AC6
class Layout:
    """how forward splits *rest: ordered segments with the count slots that delimit them"""

    def __init__(self, fc: FnCls):
        self.fc = fc
        self.segments: List[Tuple[str, str, str]] = []   # (name, lower, upper) as source text ('' = open)
        v = fc.vararg
        if v is None:
            return

        def terms(e) -> Optional[List[str]]:
            """a sum of names / constants as the list of its terms (None: something else)"""
            if e is None:
                return []
            if isinstance(e, ast.BinOp) and isinstance(e.op, ast.Add):
                l_, r_ = terms(e.left), terms(e.right)
                return None if l_ is None or r_ is None else l_ + r_
            if isinstance(e, (ast.Name, ast.Constant, ast.Attribute)):
                return [ast.unparse(e)]
            return None
        # a slice of a slice is a slice of the argument list: X = V[a:b]; Y = X[c:d]  ==>  Y = V[a+c : a+d] (or : b); the segments are the
        # innermost pieces, whatever the nesting
        known: Dict[str, Tuple[Optional[List[str]], Optional[List[str]]]] = {v: ([], None)}      # name -> (lower terms, upper terms | None = open)
        order: List[str] = []
        sliced_further: Set[str] = set()
        raw: Dict[str, Tuple[str, str]] = {}
        stmts = sorted([s for s in own_nodes(fc.forward.node) if isinstance(s, ast.Assign)], key=lambda s: (s.lineno, s.col_offset))
        for s in stmts:
            if len(s.targets) == 1 and isinstance(s.targets[0], ast.Name) and isinstance(s.value, ast.Subscript) and isinstance(s.value.value, ast.Name) \
                    and s.value.value.id in known and isinstance(s.value.slice, ast.Slice) and s.value.slice.step is None:
                base, sl = s.value.value.id, s.value.slice
                blo, bhi = known[base]
                lo_t, hi_t = terms(sl.lower), (terms(sl.upper) if sl.upper is not None else None)
                if base != v:
                    sliced_further.add(base)
                if blo is None or lo_t is None or (sl.upper is not None and hi_t is None):
                    known[s.targets[0].id] = (None, None)
                    raw[s.targets[0].id] = (ast.unparse(sl.lower) if sl.lower is not None else "?", ast.unparse(sl.upper) if sl.upper is not None else "?")
                else:
                    known[s.targets[0].id] = (blo + lo_t, (blo + hi_t) if hi_t is not None else bhi)
                order.append(s.targets[0].id)
        for nm in order:
            if nm in sliced_further:
                continue
            lo_t, hi_t = known[nm]
            if lo_t is None:
                self.segments.append((nm,) + raw.get(nm, ("?", "?")))
            else:
                self.segments.append((nm, " + ".join(lo_t), " + ".join(hi_t) if hi_t is not None else ""))

    def count_slots(self) -> List[str]:
        """forward parameters that delimit the segments, in segment order"""
        slots = []
        for name, lo, hi in self.segments:
            for part in (hi,):
                if part:
                    last = part.split("+")[-1].strip()
                    if last in self.fc.fixed and last not in slots:
                        slots.append(last)
        return slots

    def consistent(self) -> Optional[str]:
        """segments must tile the vararg: seg[i].upper == seg[i+1].lower, first lower '', last upper ''"""
        if not self.segments:
            return "forward does not split *%s" % self.fc.vararg
        if self.segments[0][1] != "":
            return "first segment does not start at 0"
        for (n1, lo1, hi1), (n2, lo2, hi2) in zip(self.segments, self.segments[1:]):
            if hi1 != lo2:
                return "segments %s[%s:%s] and %s[%s:%s] do not tile" % (n1, lo1, hi1, n2, lo2, hi2)
        if self.segments[-1][2] != "":
            return "last segment is not open-ended"
        return None


def _len_of(e: ast.AST, fn: ast.AST, depth=0) -> Optional[str]:
    """if e evaluates to len(X) return source of X"""
    if isinstance(e, ast.Call) and isinstance(e.func, ast.Name) and e.func.id == "len" and len(e.args) == 1:
        return ast.unparse(e.args[0])
    if isinstance(e, ast.Name) and depth < 4:
        ds = function_defs(fn).get(e.id, [])
        r = {_len_of(d, fn, depth + 1) for d in ds}
        if len(r) == 1:
            return r.pop()
    return None


def _resolve_star(e: ast.AST, fn: ast.AST, depth=0) -> str:
    """source text of a starred value with local single-definition names expanded"""
    if isinstance(e, ast.Name) and depth < 4:
        ds = function_defs(fn).get(e.id, [])
        if len(ds) == 1 and isinstance(ds[0], (ast.Call, ast.IfExp)):
            return ast.unparse(ds[0])
    return ast.unparse(e)


def ac6_layout(model: Model, fc: FnCls, R: RuleResult, external_only: bool = True):
    lay = Layout(fc)
    msg = lay.consistent()
    if msg:
        R.bad(fc.forward, fc.forward.node, "forward: " + msg)
        return 0
    slots = lay.count_slots()
    R.ok(fc.forward.fq, "forward splits *%s into %s delimited by %s" % (fc.vararg, [s[0] for s in lay.segments], slots))
    nseg = len(lay.segments)
    n = 0
    for f, c in apply_sites(model, fc):
        if f is fc.backward or f.qualname.startswith(fc.backward.qualname + "."):
            inner = True
        else:
            inner = False
        stars = [a for a in c.args if isinstance(a, ast.Starred)]
        lead = len(c.args) - len(stars)
        if lead != len(fc.fixed):
            continue  # AC1 reports it
        n += 1
        where = "%s.apply in %s" % (fc.name, f.qualname)
        if len(stars) > nseg or len(stars) < len(slots):
            R.bad(f, enclosing_stmt(c), "%s passes %d starred segments but forward splits *%s into %d" % (where, len(stars), fc.vararg, nseg))
            continue
        ok = True
        for i, slot in enumerate(slots):
            arg = c.args[fc.fixed.index(slot)]
            ln = _len_of(arg, f.node)
            star_src = ast.unparse(stars[i].value)
            if ln is None or ln != star_src:
                ok = False
                R.bad(f, enclosing_stmt(c), "%s: count slot `%s` must be len(%s) (the %d-th starred segment), got `%s`" %
                      (where, slot, star_src, i, ast.unparse(arg)))
        if ok:
            R.ok(f.fq, "%s: count slots %s = len of starred segments %s" % (where, slots, [ast.unparse(s.value) for s in stars]))
        if not inner:
            _check_objparams_segments(model, fc, f, c, stars, R, where)
    return n


def _pure_function_names(f: FuncInfo) -> Dict[str, str]:
    """local names bound to get_pure_function(..) results or make_sibling-decorated closures -> root pure function name"""
    roots: Dict[str, str] = {}
    fn = f.node
    for s in own_nodes(fn):
        if isinstance(s, ast.Assign) and len(s.targets) == 1 and isinstance(s.targets[0], ast.Name) \
                and isinstance(s.value, ast.Call) and ast.unparse(s.value.func).split(".")[-1] == "get_pure_function":
            roots[s.targets[0].id] = s.targets[0].id
    changed = True
    while changed:
        changed = False
        for s in own_nodes(fn):
            if isinstance(s, ast.FunctionDef) and s.name not in roots:
                for d in s.decorator_list:
                    if isinstance(d, ast.Call) and ast.unparse(d.func).split(".")[-1] == "make_sibling" and d.args \
                            and isinstance(d.args[0], ast.Name) and d.args[0].id in roots:
                        roots[s.name] = roots[d.args[0].id]
                        changed = True
            if isinstance(s, ast.Assign) and len(s.targets) == 1 and isinstance(s.targets[0], ast.Name) \
                    and s.targets[0].id not in roots:
                v = s.value
                cands = []
                if isinstance(v, ast.Name):
                    cands = [v]
                elif isinstance(v, ast.IfExp):
                    cands = [v.body, v.orelse]
                if cands and all(isinstance(x, ast.Name) and x.id in roots for x in cands):
                    rs = {roots[x.id] for x in cands}
                    if len(rs) == 1:
                        roots[s.targets[0].id] = rs.pop()
                        changed = True
    # names assigned in both branches of an if/else
    for nm, ds in function_defs(fn).items():
        if nm not in roots and ds and all(isinstance(d, ast.Name) and d.id in roots for d in ds):
            rs = {roots[d.id] for d in ds}
            if len(rs) == 1:
                roots[nm] = rs.pop()
    return roots


def _check_objparams_segments(model, fc, f, c, stars, R, where):
    """the object-parameter segments are `<pf>.objparams()` of the pure function that is passed as callable"""
    roots = _pure_function_names(f)
    star_txt = [_resolve_star(s.value, f.node) for s in stars]
    obj_stars = [(i, t) for i, t in enumerate(star_txt) if t.endswith(".objparams()")]
    passed = [a.id for a in c.args if isinstance(a, ast.Name) and a.id in roots]
    if not passed:
        return  # not a pure-function based functional (solve / symeig)
    if not obj_stars:
        R.bad(f, enclosing_stmt(c), "%s: the object parameters of the pure function are not appended to the Function inputs "
              "(autograd cannot see tensors held by the object)" % where)
        return
    passed_roots = [roots[p] for p in passed]
    for i, t in obj_stars:
        owner = t[:-len(".objparams()")]
        if owner in roots and roots[owner] in passed_roots:
            R.ok(f.fq, "%s: segment %d = %s belongs to the pure function passed as callable (%s)" % (where, i, t, roots[owner]))
        else:
            R.bad(f, enclosing_stmt(c), "%s: segment %d is `%s`, not the object parameters of a pure function passed to apply (%s)"
                  % (where, i, t, sorted(set(passed_roots))))
    # explicit params come before object params of the same function
    if obj_stars and obj_stars[0][0] == 0 and len(stars) > 1:
        R.bad(f, enclosing_stmt(c), "%s: object parameters must follow the explicit parameters" % where)


# ------------------------------------------------------------------------------------------ AC7
def ac7_no_inplace_on_apply_outputs(model: Model, fi: FuncInfo, R: RuleResult):
    """flow-insensitive alias (taint) analysis: values aliasing the output of some `.apply(...)` (through
    packing, subscripts, comprehensions, copies) must not be updated in place."""
    fn = fi.node
    VIEW_CALLS = {"pack", "reshape", "view", "transpose", "squeeze", "unsqueeze", "flip", "detach", "contiguous", "T"}
    tensor_t: Set[str] = set()
    cont_t: Set[str] = set()

    def expr_taint(e) -> Optional[str]:
        """'tensor' / 'container' / None"""
        if isinstance(e, ast.Call):
            if isinstance(e.func, ast.Attribute) and e.func.attr == "apply":
                r = model.resolve_expr(fi.module, e.func.value)
                if r and r[0] == "class" and any(b.endswith("autograd.Function") for b in r[1].base_exprs):
                    return "tensor"
            if isinstance(e.func, ast.Attribute) and e.func.attr in VIEW_CALLS:
                base = e.func.value
                srcs = [base] + list(e.args)
                ts = [expr_taint(x) for x in srcs]
                if any(ts):
                    return "container" if e.func.attr == "pack" else "tensor"
            return None
        if isinstance(e, ast.Name):
            if e.id in tensor_t:
                return "tensor"
            if e.id in cont_t:
                return "container"
            return None
        if isinstance(e, ast.Subscript):
            t = expr_taint(e.value)
            return "tensor" if t else None
        if isinstance(e, (ast.List, ast.Tuple)):
            return "container" if any(expr_taint(x) for x in e.elts) else None
        if isinstance(e, (ast.ListComp, ast.GeneratorExp)):
            # element expression evaluated with loop vars tainted if their iterables are
            local = set()
            for g in e.generators:
                if expr_taint(g.iter):
                    for n in ast.walk(g.target):
                        if isinstance(n, ast.Name):
                            local.add(n.id)
            saved = set(tensor_t)
            tensor_t.update(local)
            t = expr_taint(e.elt)
            tensor_t.clear()
            tensor_t.update(saved)
            return "container" if t else None
        if isinstance(e, ast.IfExp):
            return expr_taint(e.body) or expr_taint(e.orelse)
        if isinstance(e, ast.Starred):
            return expr_taint(e.value)
        return None

    changed = True
    rounds = 0
    while changed and rounds < 10:
        changed = False
        rounds += 1
        for s in own_nodes(fn):
            if isinstance(s, ast.Assign):
                t = expr_taint(s.value)
                if not t:
                    continue
                for tg in s.targets:
                    if isinstance(tg, ast.Name):
                        tgt = tensor_t if t == "tensor" else cont_t
                        if tg.id not in tgt:
                            tgt.add(tg.id)
                            changed = True
                    elif isinstance(tg, ast.Subscript) and isinstance(tg.value, ast.Name):
                        # storing an aliasing value into a container taints the container
                        if tg.value.id not in cont_t and tg.value.id not in tensor_t:
                            cont_t.add(tg.value.id)
                            changed = True
                    elif isinstance(tg, ast.Tuple):
                        for el in tg.elts:
                            if isinstance(el, ast.Name) and el.id not in tensor_t:
                                tensor_t.add(el.id)
                                changed = True
            elif isinstance(s, ast.For):
                if expr_taint(s.iter):
                    for n in ast.walk(s.target):
                        if isinstance(n, ast.Name) and n.id not in tensor_t:
                            tensor_t.add(n.id)
                            changed = True
    n = 0
    for s in own_nodes(fn):
        if isinstance(s, ast.AugAssign):
            base = s.target
            while isinstance(base, (ast.Subscript, ast.Attribute)):
                base = base.value
            if isinstance(base, ast.Name) and (base.id in tensor_t or base.id in cont_t):
                n += 1
                R.bad(fi, s, "in-place update of a value that aliases the output of a custom autograd Function "
                      "(`%s` holds views of an .apply result): autograd raises when the backward is itself recorded" % base.id)
        elif isinstance(s, ast.Assign):
            for tg in s.targets:
                if isinstance(tg, ast.Subscript):
                    base = tg.value
                    while isinstance(base, (ast.Subscript, ast.Attribute)):
                        base = base.value
                    if isinstance(base, ast.Name) and base.id in tensor_t and isinstance(tg.value, ast.Name) is False:
                        n += 1
                        R.bad(fi, s, "item assignment into a tensor that aliases the output of a custom autograd Function (`%s`)" % base.id)
        elif isinstance(s, ast.Expr) and isinstance(s.value, ast.Call) and isinstance(s.value.func, ast.Attribute) \
                and s.value.func.attr.endswith("_") and not s.value.func.attr.startswith("__") \
                and s.value.func.attr not in ("requires_grad_",):
            base = s.value.func.value
            while isinstance(base, (ast.Subscript, ast.Attribute)):
                base = base.value
            if isinstance(base, ast.Name) and base.id in tensor_t:
                n += 1
                R.bad(fi, s, "in-place method on a tensor that aliases the output of a custom autograd Function (`%s`)" % base.id)
    if n == 0:
        R.ok(fi.fq, "no in-place update on values aliasing .apply outputs (aliases: tensors %s, containers %s)" %
             (sorted(tensor_t), sorted(cont_t)))
    return sorted(tensor_t | cont_t)


# ------------------------------------------------------------------------------------------ AC8
def ac8_outputs_not_on_ctx(fc: FnCls, R: RuleResult):
    fw = fc.forward
    fn = fw.node
    returned: Set[str] = set()
    for r in own_returns(fw):
        if r.value is None:
            continue
        els = r.value.elts if isinstance(r.value, ast.Tuple) else [r.value]
        for e in els:
            if isinstance(e, ast.Name):
                returned.add(e.id)
    # copy closure (x = y)
    changed = True
    while changed:
        changed = False
        for s in own_nodes(fn):
            if isinstance(s, ast.Assign) and len(s.targets) == 1 and isinstance(s.targets[0], ast.Name) and isinstance(s.value, ast.Name):
                a, b = s.targets[0].id, s.value.id
                if a in returned and b not in returned:
                    returned.add(b)
                    changed = True
                if b in returned and a not in returned:
                    returned.add(a)
                    changed = True
    n = 0
    bad = 0
    for s in own_nodes(fn):
        if isinstance(s, ast.Assign):
            for t in s.targets:
                if isinstance(t, ast.Attribute) and isinstance(t.value, ast.Name) and t.value.id == fc.ctx:
                    n += 1
                    vals = {x.id for x in ast.walk(s.value) if isinstance(x, ast.Name)} if isinstance(s.value, (ast.Name, ast.Tuple, ast.List)) else set()
                    if vals & returned:
                        bad += 1
                        R.bad(fw, s, "forward stores its own output `%s` as a plain attribute of ctx: the output's grad_fn owns ctx, so "
                              "this is a reference cycle that keeps the tensors alive until the cyclic GC runs "
                              "(use ctx.save_for_backward)" % sorted(vals & returned)[0])
    if bad == 0:
        R.ok(fw.fq, "%s.forward: %d ctx attribute stores, none aliases a returned output %s" % (fc.name, n, sorted(returned)))
    return n


# ------------------------------------------------------------------------------------------ families (AC6f)
class Families:
    """For Functions whose *rest carries several (explicit, object) parameter groups - one per user function -
    determine which forward names belong to which group ("family")."""

    def __init__(self, fc: FnCls):
        self.fc = fc
        self.layout = Layout(fc)
        segs = [s[0] for s in self.layout.segments]
        self.nfam = max(1, len(segs) // 2)
        self.seg_family: Dict[str, int] = {}
        for i, s in enumerate(segs):
            self.seg_family[s] = min(i // 2, self.nfam - 1)
        self.slot_family: Dict[str, int] = {}
        slots = self.layout.count_slots()
        for i, sl in enumerate(slots):
            self.slot_family[sl] = self.seg_family[segs[i]] if i < len(segs) else 0
        # function parameter of each family: co-occurs with the family's explicit segment in one call of forward
        self.func_param: Dict[int, str] = {}
        fixed = set(fc.fixed)
        for c in own_nodes(fc.forward.node):
            if not isinstance(c, ast.Call):
                continue
            argnames = [a.id for a in c.args if isinstance(a, ast.Name)]
            if isinstance(c.func, ast.Name):
                argnames.append(c.func.id)
            if isinstance(c.func, ast.Attribute) and isinstance(c.func.value, ast.Name):
                argnames.append(c.func.value.id)
            fams = {self.seg_family[a] for a in argnames if a in self.seg_family}
            fps = [a for a in argnames if a in fixed and a not in self.slot_family]
            if len(fams) == 1 and fps:
                fam = next(iter(fams))
                for fp in fps:
                    if fp not in ("fwd_options", "bck_options", "method", "x0", "xsamples", "wsamples", "y0", "ts", "xl", "xu"):
                        self.func_param.setdefault(fam, fp)

    def forward_tags(self) -> Dict[str, int]:
        """forward-local names and ctx attributes -> family (only unambiguous ones)"""
        fc = self.fc
        tags: Dict[str, int] = {}
        for s, k in self.seg_family.items():
            tags[s] = k
        for s, k in self.slot_family.items():
            tags[s] = k
        for k, fp in self.func_param.items():
            tags[fp] = k
        changed = True
        while changed:
            changed = False
            for st in own_nodes(fc.forward.node):
                if isinstance(st, ast.Assign) and len(st.targets) == 1:
                    fams = {tags[n] for n in names_loaded(st.value) if n in tags}
                    for a in ast.walk(st.value):
                        if isinstance(a, ast.Attribute) and isinstance(a.value, ast.Name) and a.value.id == fc.ctx and ("ctx." + a.attr) in tags:
                            fams.add(tags["ctx." + a.attr])
                    if len(fams) != 1:
                        continue
                    k = next(iter(fams))
                    t = st.targets[0]
                    key = t.id if isinstance(t, ast.Name) else ("ctx." + t.attr if isinstance(t, ast.Attribute) and isinstance(t.value, ast.Name) and t.value.id == fc.ctx else None)
                    if key and key not in tags:
                        tags[key] = k
                        changed = True
        return tags


def ac6_family_consistency(model: Model, fc: FnCls, R: RuleResult) -> int:
    """(a) at every external .apply site the object-parameter segment of family k belongs to the pure function passed
    in the slot of family k's function parameter; (b) in backward, no call mixes values of different families."""
    fam = Families(fc)
    if fam.nfam < 2:
        return 0
    n = 0
    segs = [s[0] for s in fam.layout.segments]
    for f, c in apply_sites(model, fc):
        if f is fc.backward or f.qualname.startswith(fc.backward.qualname + "."):
            continue
        roots = _pure_function_names(f)
        stars = [a for a in c.args if isinstance(a, ast.Starred)]
        if len(stars) != len(segs):
            continue
        for i, st in enumerate(stars):
            txt = _resolve_star(st.value, f.node)
            if not txt.endswith(".objparams()"):
                continue
            k = fam.seg_family[segs[i]]
            fp = fam.func_param.get(k)
            if fp is None:
                continue
            slot_arg = c.args[fc.fixed.index(fp)]
            owner = txt[:-len(".objparams()")]
            n += 1
            what = "%s.apply in %s: segment %d (%s) = %s, function slot `%s` = %s" % (fc.name, f.qualname, i, segs[i], txt, fp, ast.unparse(slot_arg))
            if isinstance(slot_arg, ast.Name) and roots.get(owner) is not None and roots.get(owner) == roots.get(slot_arg.id):
                R.ok(f.fq, what)
            else:
                R.bad(f, enclosing_stmt(c), "the object parameters passed as segment `%s` do not belong to the function passed as `%s`: "
                      "the two user functions' object tensors are crossed" % (segs[i], fp), what=what)
    # (b) backward: only *structural* values carry a family (functions, separators, counts, parameter lists);
    # computed tensors do not (the score-function estimator legitimately combines f and log p)
    tags = fam.forward_tags()
    bw = fc.backward
    mod = bw.module
    funcs = [g for g in mod.functions.values() if g is bw or g.qualname.startswith(bw.qualname + ".")]
    btags: Dict[str, int] = {}

    def fam_of(e) -> Optional[int]:
        if isinstance(e, ast.Name):
            return btags.get(e.id)
        if isinstance(e, ast.Attribute) and isinstance(e.value, ast.Name) and e.value.id == fc.bctx:
            return tags.get("ctx." + e.attr)
        if isinstance(e, ast.Subscript):
            base = fam_of(e.value)
            if base is not None:
                return base
            sl = e.slice
            if isinstance(sl, ast.Slice):
                def bound_fam(b):
                    if b is None:
                        return None
                    fs = {fam_of(x) for x in ast.walk(b) if isinstance(x, (ast.Name, ast.Attribute))}
                    fs.discard(None)
                    return max(fs) if fs else None
                hi, lo = bound_fam(sl.upper), bound_fam(sl.lower)
                if hi is not None:
                    return hi
                if lo is not None and sl.upper is None:
                    return min(lo + 1, fam.nfam - 1)
            return None
        if isinstance(e, ast.Call) and isinstance(e.func, ast.Attribute) and e.func.attr in ("reconstruct_params", "get_tensor_params"):
            return fam_of(e.func.value)
        if isinstance(e, ast.Call) and isinstance(e.func, ast.Name) and e.func.id == "len" and e.args:
            return fam_of(e.args[0])
        return None
    changed = True
    rounds = 0
    while changed and rounds < 8:
        changed = False
        rounds += 1
        for g in funcs:
            for st in own_nodes(g.node):
                if isinstance(st, ast.Assign) and len(st.targets) == 1 and isinstance(st.targets[0], ast.Name):
                    k = fam_of(st.value)
                    nm = st.targets[0].id
                    if k is not None and nm not in btags:
                        btags[nm] = k
                        changed = True
    for g in funcs:
        for c in own_nodes(g.node):
            if not isinstance(c, ast.Call):
                continue
            fams = {}
            cands = list(c.args) + [k.value for k in c.keywords]
            if isinstance(c.func, ast.Attribute):
                cands.append(c.func.value)
            for a in cands:
                v = a.value if isinstance(a, ast.Starred) else a
                k = fam_of(v) if isinstance(v, (ast.Name, ast.Attribute)) else None
                if k is not None:
                    fams.setdefault(k, []).append(ast.unparse(v))
            if sum(len(v) for v in fams.values()) >= 2:
                n += 1
                what = "%s: %s" % (g.qualname, norm_stmt(c, 90))
                if len(fams) == 1:
                    R.ok(g.fq, what + " uses structural values of one function family only")
                elif ast.unparse(c.func) in ("_mcquad",) or (isinstance(c.func, ast.Attribute) and c.func.attr in ("apply",)):
                    R.ok(g.fq, what + " (combines both families by design: recursive functional call)")
                else:
                    R.bad(g, enclosing_stmt(c), "a call mixes structural values belonging to different user functions (%s): a count / separator / "
                          "parameter list of one function is applied to the other" % {k: v for k, v in fams.items()}, what=what)
    return n


# ---------------------------------------------------------------------------------------------------- AC9
def _grad_enabled_names(fn: ast.AST) -> Set[str]:
    out = set()
    for n in ast.walk(fn):
        if isinstance(n, ast.Assign) and isinstance(n.value, ast.Call) and ast.unparse(n.value.func) == "torch.is_grad_enabled":
            for t in n.targets:
                if isinstance(t, ast.Name):
                    out.add(t.id)
    return out


def _under_not_grad_enabled(node: ast.AST, fn: ast.AST, flags: Set[str]) -> bool:
    """node lies in the branch taken when the graph is NOT being recorded"""
    from ..model import effective_conditions
    for text, truth in effective_conditions(node):
        if truth is False and (text in flags or text == "torch.is_grad_enabled()"):
            return True
    return False


def ac9_connected_copies(fc: FnCls, R: RuleResult) -> int:
    """Differentiable copies made in `backward` for a pull-back must stay connected to the graph when the backward pass is itself
    recorded: `p.clone().requires_grad_()`.  A `p.detach().requires_grad_()` copy cuts the dependence of the gradient on p (the
    second derivative silently loses terms) and is accepted only in the branch taken when grad mode is off."""
    bw = fc.backward
    flags = _grad_enabled_names(bw.node)
    n = 0
    for c in ast.walk(bw.node):
        if isinstance(c, ast.Call) and isinstance(c.func, ast.Attribute) and c.func.attr == "requires_grad_" and not c.args:
            chain = []
            e = c.func.value
            while isinstance(e, ast.Call) and isinstance(e.func, ast.Attribute):
                chain.append(e.func.attr)
                e = e.func.value
            if not chain or chain[-1] not in ("clone", "detach") and "clone" not in chain and "detach" not in chain:
                continue        # e.g. torch.zeros(...).requires_grad_(): a fresh constant, not a copy of an input
            n += 1
            what = "%s = copy of `%s` via .%s().requires_grad_()" % (norm_stmt(enclosing_stmt(c), 70), ast.unparse(e), "().".join(reversed(chain)))
            par = getattr(c, "_parent", None)
            keyed_by_tensor = False
            if isinstance(par, ast.DictComp) and par.value is c:
                # the key is the tensor (or something computed from it: id(p), p.data_ptr()) iff it mentions the copied variable
                src_names = {n_.id for n_ in ast.walk(e) if isinstance(n_, ast.Name)}
                keyed_by_tensor = bool(src_names & {n_.id for n_ in ast.walk(par.key) if isinstance(n_, ast.Name)})
            elif isinstance(par, ast.Dict):
                keyed_by_tensor = True
            if keyed_by_tensor:
                R.bad(bw, enclosing_stmt(c), "the differentiable copies are collected in a mapping keyed by the tensor: a tensor that occupies two parameter slots "
                      "(passed explicitly and held by the object) gets ONE copy for both slots, so its gradient is the sum returned twice and the per-slot "
                      "gradients are wrong; make one copy per slot", what=what)
            elif "detach" in chain and not _under_not_grad_enabled(c, bw.node, flags):
                R.bad(bw, enclosing_stmt(c), "a differentiable copy made for the pull-back is detached from the graph: with create_graph=True the "
                      "gradient loses its dependence on `%s` (use .clone().requires_grad_(), or guard with `not torch.is_grad_enabled()`)" % ast.unparse(e), what=what)
            else:
                R.ok(bw.fq, what + (" (detached only when the graph is not recorded)" if "detach" in chain else ""))
    # plain detaches (no requires_grad_ on top): the detached value must not reach a differentiable computation of the recorded backward -
    # an argument of a nested functional / Function.apply / the user's function, or the returned gradients
    for c in ast.walk(bw.node):
        if not (isinstance(c, ast.Call) and isinstance(c.func, ast.Attribute) and c.func.attr == "detach" and not c.args):
            continue
        par = getattr(c, "_parent", None)
        if isinstance(par, ast.Attribute) and par.attr == "requires_grad_":
            continue                 # decided above
        st = enclosing_stmt(c)
        if not (isinstance(st, ast.Assign) and len(st.targets) == 1 and isinstance(st.targets[0], ast.Name)):
            continue
        n += 1
        what = "%s: a detached value" % norm_stmt(st, 70)
        if _under_not_grad_enabled(c, bw.node, flags):
            R.ok(bw.fq, what + " (only when the graph is not recorded)")
            continue
        tainted = {st.targets[0].id}
        changed = True
        while changed:
            changed = False
            for a in ast.walk(bw.node):
                if isinstance(a, ast.Assign) and len(a.targets) == 1 and isinstance(a.targets[0], ast.Name) and a.targets[0].id not in tainted \
                        and any(isinstance(x, ast.Name) and x.id in tainted for x in ast.walk(a.value)):
                    tainted.add(a.targets[0].id)
                    changed = True
        sink = None
        for k in ast.walk(bw.node):
            if isinstance(k, ast.Call) and k is not c:
                fn = ast.unparse(k.func)
                nested = fn.endswith(".apply") or fn.split(".")[-1].lstrip("_") in ("mcquad", "quad", "solve_ivp", "solve", "rootfinder", "equilibrium", "minimize", "symeig", "jac", "hess") \
                    or (isinstance(k.func, ast.Name) and ("fcn" in k.func.id or "func" in k.func.id))
                if nested and any(isinstance(x, ast.Name) and x.id in tainted for a_ in list(k.args) + [kw.value for kw in k.keywords] for x in ast.walk(a_)):
                    sink = k
                    break
            if isinstance(k, ast.Return) and k.value is not None and any(isinstance(x, ast.Name) and x.id in tainted for x in ast.walk(k.value)):
                sink = k
                break
        if sink is not None:
            R.bad(bw, st, "a value detached in backward (`%s`) reaches `%s`: when the backward pass is recorded (create_graph=True) the gradient loses its dependence "
                  "on it and second derivatives silently miss terms (detach only under `not torch.is_grad_enabled()`)" % (
                      ast.unparse(c)[:40], ast.unparse(sink)[:60].split("\n")[0]), what=what)
        else:
            R.ok(bw.fq, what + " that reaches no nested differentiable call and no returned gradient")
    return n


MERGING_CLASSES = {"solve_torchfcn", "symeig_torchfcn", "_SolveIVP", "_Quadrature", "_MCQuad"}


def abstract_option_run(model: Model, fi: FuncInfo, watch_calls=()):
    """Abstract evaluation (domains/dictsem.py) of the dictionary statements of a function that receives forward options (a parameter
    or **kwargs named fwd_options / options) and possibly `bck_options`.  Returns (environment at the end, {watched call: abstract
    value of its ** splat at the moment of the call}, the initial forward / backward dictionaries)."""
    from ..domains.dictsem import DictInterp, ADict, Unsupported, Raised, _Return, OtherToken
    helpers = {}
    try:
        misc = model.module("xitorch/_utils/misc.py")
        for nm in ("set_default_option", "get_and_pop_keys"):
            if nm in misc.functions:
                helpers[nm] = misc.functions[nm].node
    except Exception:
        pass

    class _I(DictInterp):
        def ev(self, e):
            # a name the option statements never bound (an implementation, a tensor, ..) is an opaque value, not an obstacle: the
            # arguments next to it (`config.pop("method")`) still have to be evaluated for their effect on the dictionaries
            if isinstance(e, ast.Name) and e.id not in self.env:
                return OtherToken()
            return super().ev(e)

        def call(self, c):
            fn = ast.unparse(c.func).split(".")[-1]
            if fn in helpers and isinstance(c.func, ast.Name):
                hn = helpers[fn]
                ps = [a.arg for a in hn.args.args]
                sub = _I({p_: self.ev(a) for p_, a in zip(ps, c.args)})
                return sub.call_function(hn)
            return super().call(c)
    fwd0 = {"method": "$m", "f1": "$F1", "shared": "$Fs"}
    bck0 = {"shared": "$Bs", "b1": "$B1"}
    names = fi.all_params() + ([fi.kwarg()] if fi.kwarg() else [])
    env = {}
    if "bck_options" in names:
        env["bck_options"] = ADict(bck0, "bck_options")
    fwd_param = next((n_ for n_ in ("fwd_options", "options") if n_ in names), None)
    if "method" in names:
        fwd0 = {k: v for k, v in fwd0.items() if k != "method"}          # the method travels separately
    if fwd_param:
        env[fwd_param] = ADict(fwd0, fwd_param)
    if "method" in names:
        env["method"] = "$m"
    it = _I(env)
    snaps = {}

    def run(stmts):
        for st in stmts:
            for c in watch_calls:
                if any(n_ is c for n_ in ast.walk(st)):
                    for k in c.keywords:
                        if k.arg is None:
                            try:
                                v = it.ev(k.value)
                                snaps[c] = dict(v.data) if isinstance(v, ADict) else None
                            except (Unsupported, Raised, TypeError, AttributeError, KeyError, IndexError, ValueError):
                                snaps[c] = None
            if isinstance(st, ast.With):
                run(st.body)
                continue
            if isinstance(st, (ast.If, ast.For, ast.While, ast.Try)):
                for blk in (getattr(st, "body", []), getattr(st, "orelse", [])):
                    run(blk)
                continue
            if isinstance(st, (ast.FunctionDef, ast.Return)):
                continue
            try:
                it.run([st])
            except (Unsupported, Raised, _Return, TypeError, AttributeError, KeyError, IndexError, ValueError):
                # (an opaque value used as a container: the statement is outside the dictionary vocabulary)
                for n_ in ast.walk(st):
                    if isinstance(n_, ast.Name) and isinstance(n_.ctx, ast.Store) and isinstance(it.env.get(n_.id), ADict):
                        del it.env[n_.id]
    run(fi.node.body)
    return it.env, snaps, (env.get(fwd_param), env.get("bck_options"), fwd0, bck0, fwd_param)


def option_merge_semantic(model: Model, fc: FnCls, raw: bool = False):
    """With symbolic forward options {method, f1, shared} and bck_options {shared, b1}, the dictionary that ends up on ctx must contain
    every bck_options entry with the caller's value and otherwise either exactly the forward options (inherited, `method` included) or
    constant defaults.  Returns "" if so, a reason if not, None if the statements cannot be interpreted."""
    from ..domains.dictsem import ADict
    fw = fc.forward
    envf, _snaps, (fwd_d, bck_d, fwd0, bck0, fwd_param) = abstract_option_run(model, fw)
    if bck_d is None:
        return None

    class _E:
        pass
    it = _E()
    it.env = envf
    env = {"bck_options": bck_d}
    if fwd_param:
        env[fwd_param] = fwd_d
    saved = {k: v for k, v in it.env.items() if k.startswith(fc.ctx + ".") and isinstance(v, ADict)}
    if raw:
        return {k: dict(v.data) for k, v in saved.items()}
    if not saved:
        return None
    reasons = []
    for k, d in saved.items():
        got = d.data
        if any(got.get(bk) != bv for bk, bv in bck0.items()):
            reasons.append("%s = %s does not give the caller's bck_options %s precedence" % (k, got, bck0))
            continue
        rest = {a: b for a, b in got.items() if a not in bck0}
        inherited = {a: b for a, b in fwd0.items() if a not in bck0}
        if fwd_param and rest == inherited:
            if d.ident in (env["bck_options"].ident, env[fwd_param].ident):
                reasons.append("%s is the caller's dictionary itself, not a copy" % k)
                continue
            return ""
        if not any(str(v).startswith("$F") or v == "$m" for v in rest.values()):
            if d.ident == env["bck_options"].ident:
                reasons.append("%s is the caller's bck_options itself, not a copy" % k)
                continue
            return ""
        reasons.append("%s = %s inherits only part of the forward options %s" % (k, got, fwd0))
    return reasons[0] if reasons else None


def option_hygiene(model: Model, fc: FnCls, R: RuleResult) -> int:
    """OPT rules of rules/options.py for one Function plus: the merge exists, and the caller's bck_options dict is never mutated in
    place nor stored itself on ctx (a shared default `{}` or a caller-owned dict would carry options into later calls)."""
    from . import options
    n = options.option_merge(model, fc, R)
    fw = fc.forward
    if "bck_options" not in fc.fixed:
        return n
    # _RootFinder is exempt by design: its forward options (root finder) and backward options (linear solver) are different
    # namespaces and are not merged
    if n == 0 and fc.name in MERGING_CLASSES:
        # no literal set_default_option(..) call: decide the merge semantically (any spelling: dict(..) + update, {**a, **b}, a helper)
        verdict = option_merge_semantic(model, fc)
        n += 1
        if verdict is None:
            R.undecided(fw, fw.node, "cannot find how the saved backward options are built from the forward options and bck_options")
        elif verdict == "":
            R.ok(fw.fq, "%s.forward: the saved backward options are <forward options or constant defaults> overridden by bck_options (abstract evaluation of the dictionary statements)" % fc.name)
        else:
            R.bad(fw, fw.node, "the saved backward options are not <defaults> overridden by the caller's bck_options: %s" % verdict)
    sites = [(fw, "bck_options")]
    for f, call in apply_sites(model, fc):
        if "bck_options" in f.params() + f.kwonly() and f.module.relpath == fw.module.relpath and f.cls is None and f.parent is None:
            sites.append((f, "bck_options"))
    seen = set()
    MUT = ("setdefault", "update", "pop", "popitem", "clear", "__setitem__", "__delitem__")
    for f, pname in sites:
        if f.fq in seen:
            continue
        seen.add(f.fq)
        al = options._aliases_of_param(f.node, pname)
        bad = None
        for node in ast.walk(f.node):
            if isinstance(node, ast.Call) and isinstance(node.func, ast.Attribute) and node.func.attr in MUT and isinstance(node.func.value, ast.Name) and node.func.value.id in al:
                bad = node
            if isinstance(node, (ast.Assign, ast.AugAssign)):
                for t in (node.targets if isinstance(node, ast.Assign) else [node.target]):
                    if isinstance(t, ast.Subscript) and isinstance(t.value, ast.Name) and t.value.id in al:
                        bad = node
            if isinstance(node, ast.Delete):
                for t in node.targets:
                    if isinstance(t, ast.Subscript) and isinstance(t.value, ast.Name) and t.value.id in al:
                        bad = node
        if f is fw:
            # the saved options are the caller's dict (or share state with it): backward must not mutate them either, the second
            # backward pass through the same graph (retain_graph) or the next call sharing the dict would see different options
            attrs = ctx_option_attrs(fc)
            mod = fc.backward.module
            for g in mod.functions.values():
                if not (g is fc.backward or g.qualname.startswith(fc.backward.qualname + ".")):
                    continue
                gdefs = function_defs(g.node)
                al2 = set()
                for nm, ds in gdefs.items():
                    if ds and all(isinstance(d, ast.Attribute) and isinstance(d.value, ast.Name) and d.value.id == fc.bctx and d.attr in attrs for d in ds):
                        al2.add(nm)
                for node in ast.walk(g.node):
                    if isinstance(node, ast.Call) and isinstance(node.func, ast.Attribute) and node.func.attr in MUT:
                        recv = node.func.value
                        if (isinstance(recv, ast.Name) and recv.id in al2) or (isinstance(recv, ast.Attribute) and isinstance(recv.value, ast.Name)
                                                                               and recv.value.id == fc.bctx and recv.attr in attrs):
                            bad = node
                    if isinstance(node, (ast.Assign, ast.AugAssign, ast.Delete)):
                        tg = node.targets if isinstance(node, (ast.Assign, ast.Delete)) else [node.target]
                        for t in tg:
                            if isinstance(t, ast.Subscript):
                                b = t.value
                                if (isinstance(b, ast.Name) and b.id in al2) or (isinstance(b, ast.Attribute) and isinstance(b.value, ast.Name) and b.value.id == fc.bctx and b.attr in attrs):
                                    bad = node
        n += 1
        if bad is None:
            R.ok(f.fq, "%s never mutates the caller's bck_options in place" % f.qualname)
        else:
            R.bad(f if any(bad is x for x in ast.walk(f.node)) else fc.backward, enclosing_stmt(bad) if not isinstance(bad, ast.stmt) else bad, "the caller's bck_options dictionary (or the saved options that alias it) is mutated in place: options leak "
                  "into later calls that share the dict (e.g. the mutable default `{}`)")
    return n


def ac12_saved_output_identity(fc: FnCls, R: RuleResult) -> int:
    """A tensor that forward *creates* and saves for backward must be returned as that very object.  forward runs without a graph,
    so a saved tensor that is not an output is a constant for the backward-of-backward: returning a copy / view / converted version
    of it (`x.contiguous()`, `x.clone()`, `x.to(..)`) while saving the original silently drops every second-order term that goes
    through the solution."""
    fw = fc.forward
    params = set(fw.params()) | ({fw.vararg()} if fw.vararg() else set())
    saved = []
    for c in own_nodes(fw.node):
        if isinstance(c, ast.Call) and ast.unparse(c.func).endswith("save_for_backward"):
            saved += [a.id for a in c.args if isinstance(a, ast.Name) and a.id not in params]
    saved = sorted(set(saved))
    rets = [r for r in own_nodes(fw.node) if isinstance(r, ast.Return) and r.value is not None]
    fdefs = function_defs(fw.node)

    def is_same(e, nm):
        """the bare name, or a plain alias of it"""
        if not isinstance(e, ast.Name):
            return False
        if e.id == nm:
            return True
        os_ = origins(e, fdefs)
        return bool(os_) and all(isinstance(o, ast.Name) and o.id == nm for o in os_) or \
            (len(fdefs.get(e.id, [])) == 1 and isinstance(fdefs[e.id][0], ast.Name) and fdefs[e.id][0].id == nm)
    n = 0
    for nm in saved:
        n += 1
        bad = None
        for r in rets:
            elts = r.value.elts if isinstance(r.value, ast.Tuple) else [r.value]
            bare = any(is_same(e, nm) for e in elts)
            derived = [e for e in elts if not isinstance(e, ast.Name) and any(isinstance(x, ast.Name) and x.id == nm for x in ast.walk(e))]
            if derived or not bare:
                bad = (r, derived)
        if bad is None:
            R.ok(fw.fq, "saved tensor `%s` is returned as the same object on every exit" % nm)
        else:
            r, derived = bad
            R.bad(fw, r, "forward saves `%s` for backward but returns %s: the saved tensor is not the node's output, so a recorded backward "
                  "treats it as a constant and second-order gradients through it are lost" % (nm, ("`%s`" % ast.unparse(derived[0])) if derived else "something else"))
    if not saved:
        R.ok(fw.fq, "forward saves only its inputs (no tensor it created): nothing to identify with the output")
    return n


# ---------------------------------------------------------------------------------------------------- AC16
_META_ATTRS = {"shape", "dtype", "device", "requires_grad", "ndim", "is_complex", "layout", "is_cuda", "grad_fn", "is_leaf"}
_META_CALLS = {"len", "isinstance", "type", "id", "torch.is_tensor", "torch.numel", "torch.is_complex", "callable"}
_META_METHODS = {"size", "dim", "numel", "ndimension", "is_complex", "is_floating_point", "is_contiguous", "stride", "element_size", "nelement"}


def _value_uses(expr: ast.AST, tainted: Set[str]) -> List[ast.Name]:
    """occurrences of tainted names in `expr` whose *value* (not shape / dtype / None-ness) can influence the result"""
    out: List[ast.Name] = []

    def walk(e):
        if isinstance(e, ast.Name):
            if e.id in tainted:
                out.append(e)
            return
        if isinstance(e, ast.Attribute) and e.attr in _META_ATTRS:
            return
        if isinstance(e, ast.Call):
            fn = ast.unparse(e.func)
            if fn in _META_CALLS:
                return
            if isinstance(e.func, ast.Attribute) and e.func.attr in _META_METHODS:
                return
        if isinstance(e, ast.Compare) and len(e.ops) == 1 and isinstance(e.ops[0], (ast.Is, ast.IsNot)):
            return
        if isinstance(e, (ast.Lambda, ast.FunctionDef, ast.AsyncFunctionDef)):
            return
        for ch in ast.iter_child_nodes(e):
            walk(ch)
    walk(expr)
    return out


def _diagnostic_only(ifnode: ast.If, fn: ast.AST) -> bool:
    """the arms of the `if` only raise, warn or build a message: no name they bind is read outside the `if`, nothing else is stored"""
    inside = {id(x) for x in ast.walk(ifnode)}
    bound: Set[str] = set()
    for arm in (ifnode.body, ifnode.orelse):
        for st in arm:
            if isinstance(st, (ast.Raise, ast.Pass)):
                continue
            if isinstance(st, ast.Expr) and isinstance(st.value, ast.Call) and ast.unparse(st.value.func) in ("warnings.warn", "warn", "print"):
                continue
            if isinstance(st, (ast.Assign, ast.AugAssign)):
                tgs = st.targets if isinstance(st, ast.Assign) else [st.target]
                if all(isinstance(t, ast.Name) for t in tgs):
                    bound |= {t.id for t in tgs}
                    continue
            if isinstance(st, ast.If) and _diagnostic_only(st, fn):
                continue
            return False
    for x in ast.walk(fn):
        if isinstance(x, ast.Name) and isinstance(x.ctx, ast.Load) and x.id in bound and id(x) not in inside:
            return False
    return True


def ac16_cotangent_control_flow(fc: FnCls, R: RuleResult) -> int:
    """In a backward pass the *values* of the incoming cotangents never steer control flow.  A recorded backward (create_graph=True) is a
    differentiable function of the cotangents; a branch / trip count / slice bound decided by `g.any()`, `g == 0`, `g.abs().max() < eps`,
    `g.nonzero()` .. makes it piecewise: on the taken piece the dependence on the tested cotangent is dropped, so every second-order
    quantity through it (Hessian-vector products, the double-backward trick for jvp, mixed derivatives w.r.t. a weight that is zero now)
    is silently wrong although every first-order value is unchanged.  Tests of None-ness, shape, dtype, requires_grad are not values."""
    bw = fc.backward
    mod = bw.module
    family = [f for f in mod.functions.values() if f is bw or f.qualname.startswith(bw.qualname + ".")]
    ps = bw.params()[1:] + ([bw.vararg()] if bw.vararg() else [])
    tainted: Set[str] = set(ps)
    # propagate through plain value flow inside backward and its nested functions (names are function-local, but closures read them)
    changed = True
    rounds = 0
    while changed and rounds < 20:
        changed = False
        rounds += 1
        for f in family:
            for st in own_nodes(f.node):
                tg, val = None, None
                if isinstance(st, ast.Assign):
                    tg, val = st.targets, st.value
                elif isinstance(st, ast.AugAssign):
                    tg, val = [st.target], st.value
                elif isinstance(st, (ast.For, ast.comprehension)):
                    tg, val = [st.target], st.iter
                if tg is None or val is None:
                    continue
                if not _value_uses(val, tainted):
                    continue
                for t in tg:
                    for n_ in ast.walk(t):
                        if isinstance(n_, ast.Name) and isinstance(n_.ctx, ast.Store) and n_.id not in tainted:
                            tainted.add(n_.id)
                            changed = True
    n = 0
    for f in family:
        for node in own_nodes(f.node):
            tests = []
            if isinstance(node, (ast.If, ast.While, ast.IfExp)):
                tests.append(node.test)
            elif isinstance(node, ast.Assert):
                continue
            elif isinstance(node, ast.comprehension):
                tests.extend(node.ifs)
            elif isinstance(node, ast.Call) and ast.unparse(node.func) == "range":
                tests.extend(node.args)               # a trip count
            elif isinstance(node, ast.Slice):
                tests.extend(x for x in (node.lower, node.upper, node.step) if x is not None)
            diagnostic = isinstance(node, ast.If) and _diagnostic_only(node, f.node)
            for t in tests:
                n += 1
                uses = _value_uses(t, tainted)
                what = "%s: `%s`" % (f.qualname.split(".")[-1], ast.unparse(t)[:60])
                if uses and diagnostic:
                    R.ok(f.fq, what + " (diagnostic only: the arms raise / warn and bind nothing that is read afterwards)")
                elif uses:
                    R.bad(f, enclosing_stmt(node) if not isinstance(node, ast.stmt) else node,
                          "the value of a cotangent (`%s`) steers the control flow / an index range of the backward pass: in a recorded backward the "
                          "branch that is taken no longer depends on it, so second-order gradients through this cotangent are silently wrong "
                          "(first-order values are unchanged)" % uses[0].id, what=what)
                else:
                    R.ok(f.fq, what)
    if n == 0:
        R.ok(bw.fq, "backward has no data-dependent control flow at all")
    return n


# ---------------------------------------------------------------------------------------------------- AC13
_FUNCTIONAL_PARAM_KW = {"quad": "params", "_mcquad": "fparams", "mcquad": "fparams", "solve_ivp": "params", "rootfinder": "params",
                        "equilibrium": "params", "minimize": "params"}


def _is_copy_call(e: ast.AST) -> bool:
    """`<x>.clone().requires_grad_()` / `<x>.detach().requires_grad_()` (any order of clone/detach before requires_grad_)"""
    if isinstance(e, ast.Call) and isinstance(e.func, ast.Attribute) and e.func.attr == "requires_grad_":
        inner = e.func.value
        chain = []
        while isinstance(inner, ast.Call) and isinstance(inner.func, ast.Attribute):
            chain.append(inner.func.attr)
            inner = inner.func.value
        return "clone" in chain or "detach" in chain
    return False


def ac13_independent_inputs(model: Model, fc: FnCls, R: RuleResult) -> int:
    """The tensors w.r.t. which a backward pass differentiates the user's function must be fresh copies made in that backward pass
    (`p.clone().requires_grad_()` when the graph is recorded, `p.detach().requires_grad_()` otherwise), never the saved tensors
    themselves.  The saved tensors are the caller's tensors, with the caller's graph: if one of them depends on another (two
    parameters computed from one tensor; a cotangent that depends on the result), torch.autograd.grad w.r.t. them includes that
    outside dependence, and autograd adds it again when it propagates the gradients the backward returns - a wrong first-order
    gradient.  Provenance of every `inputs` operand is traced through local definitions, free variables of enclosing functions,
    tuples returned by local helpers and the parameter tuples handed to nested functionals."""
    bw = fc.backward
    mod = bw.module
    family = [f for f in mod.functions.values() if f is bw or f.qualname.startswith(bw.qualname + ".")]
    by_node = {f.node: f for f in family}
    n = 0

    def enclosing(fi):
        return fi.parent if fi.parent is not None and (fi.parent is bw or fi.parent.qualname.startswith(bw.qualname)) else None

    def returns_of(fi):
        return [r.value for r in own_nodes(fi.node) if isinstance(r, ast.Return) and r.value is not None]

    _rd_cache: Dict[str, tuple] = {}

    def reaching(fi, name_node):
        """the definitions of the name that reach the statement containing this occurrence (flow-sensitive; all definitions of the
        function when the statement is not in its CFG)"""
        from ..cfg import CFG
        from ..flow import reaching_definitions
        if fi.fq not in _rd_cache:
            try:
                cfg = CFG(fi.node)
                _rd_cache[fi.fq] = (cfg, reaching_definitions(cfg, fi.params() + ([fi.vararg()] if fi.vararg() else [])))
            except Exception:
                _rd_cache[fi.fq] = (None, None)
        cfg, IN = _rd_cache[fi.fq]
        alldefs = function_defs(fi.node).get(name_node.id, [])
        if cfg is None:
            return alldefs
        st = enclosing_stmt(name_node)
        nodes = [n_ for n_ in cfg.nodes if n_.stmt is st]
        if not nodes:
            return alldefs
        vals = set()
        for n_ in nodes:
            vals |= set(IN.get(n_.id, {}).get(name_node.id, ()))
        out_ = [v for v in vals if isinstance(v, ast.AST)]
        # a value defined by the statement kinds the CFG summarises as the statement itself (with / def)
        return [v for v in out_ if isinstance(v, ast.expr)] or ([] if "param" in vals else alldefs)

    FALSE, UNKNOWN = ("caller",), ("unknown",)

    def sources(e, fi, depth, seen):
        """where the value of name `e` (in function fi) can come from: list of (expr, scope) | FALSE (the caller's / saved tensors) |
        UNKNOWN"""
        key = (fi.fq, e.id)
        if key in seen or depth > 12:
            return []
        seen.add(key)
        out_ = []
        ds = reaching(fi, e)
        handled = set()
        for st in own_nodes(fi.node):
            if isinstance(st, ast.Assign) and isinstance(st.targets[0], ast.Tuple) and isinstance(st.value, ast.Call) and isinstance(st.value.func, ast.Name):
                names = [t.id if isinstance(t, ast.Name) else None for t in st.targets[0].elts]
                if e.id in names and any(d is st.value for d in ds):
                    callee = next((g for g in family if g.name == st.value.func.id), None)
                    handled.add(id(st.value))
                    if callee is None:
                        out_.append(UNKNOWN)
                        continue
                    k = names.index(e.id)
                    for rv in returns_of(callee):
                        out_.append((rv.elts[k], callee) if isinstance(rv, ast.Tuple) and k < len(rv.elts) else UNKNOWN)
        for d in ds:
            if id(d) in handled:
                continue
            out_.append((d, fi))
        if not ds:
            params = fi.params() + ([fi.vararg()] if fi.vararg() else [])
            if e.id in params:
                out_.extend(param_sources(fi, e.id, depth, seen))
            else:
                enc = enclosing(fi)
                out_.extend(sources(e, enc, depth + 1, seen) if enc is not None else [UNKNOWN])
        return out_

    def param_sources(fi, pname, depth, seen):
        enc = enclosing(fi)
        if enc is None:
            return [FALSE]                       # backward's own inputs are the caller's tensors
        idx = fi.params().index(pname) if pname in fi.params() else None
        found = []
        for g in [g for g in family if g is enc or g.qualname.startswith(enc.qualname + ".")]:
            for c in own_nodes(g.node):
                if not isinstance(c, ast.Call):
                    continue
                if isinstance(c.func, ast.Name) and c.func.id == fi.name:
                    if idx is not None and idx < len(c.args) and not any(isinstance(a, ast.Starred) for a in c.args[:idx + 1]):
                        found.append((c.args[idx], g))
                    elif pname == fi.vararg():
                        found.append((ast.Tuple(elts=list(c.args[len(fi.params()):]), ctx=ast.Load()), g))
                    else:
                        found.append(UNKNOWN)
                    continue
                if any(isinstance(a, ast.Name) and a.id == fi.name for a in c.args):
                    kw = _FUNCTIONAL_PARAM_KW.get(ast.unparse(c.func).split(".")[-1])
                    tup = next((k.value for k in c.keywords if k.arg == kw), None) if kw else None
                    if tup is not None and pname == fi.vararg():
                        found.append((tup, g))
                    else:
                        found.append(UNKNOWN)
        return found or [UNKNOWN]

    def combine(rs):
        if any(r is False for r in rs):
            return False
        return None if (not rs or any(r is None for r in rs)) else True

    def fresh(e, fi, depth=0, seen=None) -> Optional[bool]:
        """True: certainly fresh copies; False: certainly (partly) the saved / caller's tensors; None: cannot tell"""
        seen = seen if seen is not None else set()
        if depth > 14:
            return None
        if isinstance(e, ast.ListComp):
            def elt_copy(x):
                return _is_copy_call(x) or (isinstance(x, ast.IfExp) and elt_copy(x.body) and elt_copy(x.orelse))
            return True if elt_copy(e.elt) else None
        if _is_copy_call(e):
            return True
        if isinstance(e, ast.Starred):
            return fresh(e.value, fi, depth + 1, seen)
        if isinstance(e, ast.IfExp):
            # either arm may be taken: fresh only if both are
            return combine([fresh(e.body, fi, depth + 1, set(seen)), fresh(e.orelse, fi, depth + 1, set(seen))])
        if isinstance(e, ast.BoolOp):
            return combine([fresh(v, fi, depth + 1, set(seen)) for v in e.values])
        if isinstance(e, (ast.List, ast.Tuple)):
            return combine([fresh(x, fi, depth + 1, seen) for x in e.elts]) if e.elts else True
        if isinstance(e, ast.BinOp) and isinstance(e.op, ast.Add):
            return combine([fresh(e.left, fi, depth + 1, seen), fresh(e.right, fi, depth + 1, seen)])
        if isinstance(e, ast.Call) and ast.unparse(e.func) in ("list", "tuple") and len(e.args) == 1:
            return fresh(e.args[0], fi, depth + 1, seen)
        if isinstance(e, ast.Subscript):
            if "saved_tensors" in ast.unparse(e.value):
                return False
            # a constant slice of a tuple display selects elements: `(grad, *copies)[1:]` is `copies`
            sl = e.slice
            if isinstance(sl, ast.Slice) and sl.step is None and isinstance(e.value, ast.Name):
                lo = sl.lower.value if isinstance(sl.lower, ast.Constant) and isinstance(sl.lower.value, int) else (0 if sl.lower is None else None)
                if lo is not None and lo >= 0 and sl.upper is None:
                    rs = []
                    for src in sources(e.value, fi, depth + 1, set(seen)):
                        if src is FALSE:
                            rs.append(False)
                        elif src is UNKNOWN:
                            rs.append(None)
                        else:
                            ex, sc = src
                            if isinstance(ex, (ast.Tuple, ast.List)) and not any(isinstance(x, ast.Starred) for x in ex.elts[:lo]) and len(ex.elts) >= lo:
                                rs.append(fresh(ast.Tuple(elts=list(ex.elts[lo:]), ctx=ast.Load()), sc, depth + 1, seen))
                            else:
                                rs.append(fresh(ex, sc, depth + 1, seen))
                    return combine(rs)
            return fresh(e.value, fi, depth + 1, seen)
        if isinstance(e, ast.Attribute):
            return False if "saved_tensors" in ast.unparse(e) else None
        if isinstance(e, ast.Name):
            rs = []
            for src in sources(e, fi, depth + 1, set(seen)):
                if src is FALSE:
                    rs.append(False)
                elif src is UNKNOWN:
                    rs.append(None)
                else:
                    rs.append(fresh(src[0], src[1], depth + 1, seen))
            return combine(rs)
        return None

    for f, c in grads_in_backward(fc):
        inp = c.args[1] if len(c.args) > 1 else _kw(c, "inputs")
        if inp is None:
            continue
        n += 1
        r = fresh(inp, f)
        what = "%s: autograd.grad(.., inputs=%s)" % (f.qualname.split(".")[-1], ast.unparse(inp)[:50])
        if r is True:
            R.ok(f.fq, what + ": fresh copies made in this backward pass on every path")
        elif r is False:
            R.bad(f, enclosing_stmt(c), "the function is differentiated w.r.t. the saved tensors themselves (`%s`) on some path: when those tensors depend on each other "
                  "outside the function (parameters computed from a common tensor, a cotangent depending on the result) the dependence is counted here and again "
                  "by autograd - the returned gradients are not partial derivatives; differentiate w.r.t. `.clone()` / `.detach()` copies" % ast.unparse(inp)[:60], what=what)
        else:
            # provenance not traceable with the patterns above: no verdict for this call (the other rules still run)
            R.note("%s: provenance of `%s` not traceable - no verdict" % (f.fq, ast.unparse(inp)[:60]))
    return n


def ac14_evaluation_context(fc: FnCls, R: RuleResult) -> int:
    """A pure function whose object parameters backward substitutes (`f.useobjparams(..)` appears somewhere in backward or its closures)
    is never evaluated there outside such a context (or `f.disable_state_change()`): a bare call runs on whatever tensors the user's
    object holds at backward time - not the saved ones, and not the differentiable copies - so gradients w.r.t. object-held tensors are
    lost or taken at the wrong values."""
    bw = fc.backward
    family = [f for f in bw.module.functions.values() if f is bw or f.qualname.startswith(bw.qualname + ".")]
    ctx_names = set()
    for f in family:
        for w in own_nodes(f.node):
            if isinstance(w, ast.With):
                for i in w.items:
                    c = i.context_expr
                    if isinstance(c, ast.IfExp):
                        c = c.body
                    if isinstance(c, ast.Call) and isinstance(c.func, ast.Attribute) and c.func.attr in ("useobjparams", "disable_state_change"):
                        ctx_names.add(ast.unparse(c.func.value))
    n = 0
    for f in family:
        for c in own_nodes(f.node):
            if isinstance(c, ast.Call) and ast.unparse(c.func) in ctx_names:
                n += 1
                recv = ast.unparse(c.func)
                items = []
                for w in ancestors(c):
                    if isinstance(w, ast.With):
                        for i in w.items:
                            e = i.context_expr.body if isinstance(i.context_expr, ast.IfExp) else i.context_expr
                            if isinstance(e, ast.Call) and isinstance(e.func, ast.Attribute):
                                items.append((ast.unparse(e.func.value), e.func.attr))
                what = "%s: %s(..) under %s" % (f.qualname.split(".")[-1], recv, items)
                if any(r_.split(".")[-1] == recv.split(".")[-1] and a_ in ("useobjparams", "disable_state_change") for r_, a_ in items):
                    R.ok(f.fq, what)
                else:
                    R.bad(f, enclosing_stmt(c), "`%s(..)` is evaluated in backward outside `with %s.useobjparams(..)`: it runs on the tensors the user's object holds now, "
                          "not on the saved / differentiable copies (wrong or missing gradients w.r.t. object-held tensors, wrong values when the object was "
                          "modified since the forward pass)" % (recv, recv), what=what)
    return n


def hygiene_rules(model: Model, fc: FnCls, prop: str, min_copies: int = 1, min_opt: int = 2, min_conv: int = 0, min_idx: int = 0) -> List[RuleResult]:
    R9 = RuleResult(prop, "AC9", "differentiable copies in backward stay connected to the graph (clone, not detach) when the backward is recorded", min_instances=min_copies)
    RO = RuleResult(prop, "OPT", "backward options: set_default_option(forward options, bck_options); caller's dict never mutated", min_instances=min_opt)
    ac9_connected_copies(fc, R9)
    option_hygiene(model, fc, RO)
    if fc.name in MERGING_CLASSES:
        from ..props.c18 import merge_semantics
        merge_semantics(model, RO)      # the merge helper itself: fresh dict, caller's options win, arguments untouched
    RC = RuleResult(prop, "AC4c", "None -> zeros conversion is shaped like the very list the gradients were taken w.r.t.", min_instances=min_conv)
    RX = RuleResult(prop, "AC10", "the explicit-parameter count slices only lists in the full argument space (never tensor-only lists)", min_instances=min_idx)
    if ac4_conversion_reference(fc, RC):
        zero_filler(model, RC)
    ac10_index_space(fc, RX)
    out = [R9, RO, RC, RX]
    R11 = RuleResult(prop, "AC11", "every exit of the public functional returns the Function's output; forward's solution comes only from the dispatched implementation; operands unchanged", min_instances=2)
    ac11_wrapper_returns(model, fc, R11)
    ac11_forward_provenance(model, fc, R11)
    out.append(R11)
    R13 = RuleResult(prop, "AC13", "pull-back inputs are fresh copies made in backward (partial derivatives), never the saved tensors themselves", min_instances=1)
    ac13_independent_inputs(model, fc, R13)
    out.append(R13)
    R16 = RuleResult(prop, "AC16", "the values of the incoming cotangents never steer control flow or index ranges in backward (None / shape / dtype tests are fine)", min_instances=1)
    ac16_cotangent_control_flow(fc, R16)
    out.append(R16)
    R14 = RuleResult(prop, "AC14", "in backward the user's function is only evaluated with its object parameters under control (useobjparams / disable_state_change)", min_instances=0)
    ac14_evaluation_context(fc, R14)
    out.append(R14)
    R12 = RuleResult(prop, "AC12", "a tensor created and saved by forward is returned as that very object (it must be the node's output to stay differentiable in a recorded backward)", min_instances=1)
    ac12_saved_output_identity(fc, R12)
    out.append(R12)
    if "TensorNonTensorSeparator" in ast.unparse(fc.forward.node):
        R15 = RuleResult(prop, "AC15", "backward returns the gradients at the positions the separator took the tensors from", min_instances=1)
        ac15_gradient_scatter(model, fc, R15)
        out.append(R15)
        SEP = RuleResult(prop, "AC-SEP", "TensorNonTensorSeparator.reconstruct_params scatters both groups back to their recorded positions (inverse of the split)", min_instances=4)
        separator_inverse(model, SEP)
        out.append(SEP)
    return out


# ---------------------------------------------------------------------------------------------------- AC4c / AC10
def zero_filler(model: Model, R: RuleResult):
    """convert_none_grads_to_zeros replaces a None gradient by zeros that have the *shape, dtype and device* of the tensor the gradient
    belongs to (zeros_like, or an explicit constructor carrying all three) and passes every other gradient through unchanged.  A
    filler of another dtype silently changes the working precision of whatever consumes the list (the backward quadrature / ODE
    take their dtype from it)."""
    f = model.func("xitorch/_utils/tensor.py", "convert_none_grads_to_zeros")
    g, inp = f.params()[:2]
    fills = []
    for n in own_nodes(f.node):
        if isinstance(n, ast.Call) and ast.unparse(n.func).split(".")[-1] in ("zeros_like", "zeros", "new_zeros", "zeros_", "full_like", "full", "empty_like", "empty", "tensor"):
            fills.append(n)
    ok = bool(fills)
    why = "no zero filler found"
    for c in fills:
        fn = ast.unparse(c.func).split(".")[-1]
        kws = {k.arg: ast.unparse(k.value) for k in c.keywords if k.arg}
        of_input = lambda t: t.startswith(inp + "[")
        if fn == "zeros_like" and c.args and of_input(ast.unparse(c.args[0])) and "dtype" not in kws and "device" not in kws:
            continue
        if fn == "new_zeros" and of_input(ast.unparse(c.func.value)) and "dtype" not in kws and "device" not in kws \
                and c.args and of_input(ast.unparse(c.args[0])):
            continue
        if fn == "zeros" and c.args and of_input(ast.unparse(c.args[0])) and of_input(kws.get("dtype", "")) and kws["dtype"].endswith(".dtype") \
                and of_input(kws.get("device", "")) and kws["device"].endswith(".device"):
            continue
        ok = False
        why = "filler `%s` does not carry shape, dtype and device of the input tensor" % ast.unparse(c)[:80]
    if ok:
        R.ok(f.fq, "None gradients are replaced by zeros with the shape, dtype and device of the corresponding input")
    else:
        R.bad(f, enclosing_stmt(fills[0]) if fills else f.node, "convert_none_grads_to_zeros: %s" % why)


def ac4_conversion_reference(fc: FnCls, R: RuleResult) -> int:
    """convert_none_grads_to_zeros(g, ref): the zeros replacing None gradients are shaped like `ref`; `ref` must therefore be the
    very list the gradients were taken with respect to (the `inputs` of the autograd.grad that produced g)."""
    n = 0
    mod = fc.backward.module
    for f in mod.functions.values():
        if not (f is fc.backward or f.qualname.startswith(fc.backward.qualname + ".")):
            continue
        defs = function_defs(f.node)
        for c in own_nodes(f.node):
            if isinstance(c, ast.Call) and ast.unparse(c.func).split(".")[-1] == "convert_none_grads_to_zeros" and len(c.args) == 2:
                g, ref = c.args
                n += 1
                src = None
                if isinstance(g, ast.Name):
                    for d in defs.get(g.id, []):
                        if isinstance(d, ast.Call) and is_autograd_grad(d):
                            src = d
                inp = None
                if src is not None:
                    inp = _kw(src, "inputs") or (src.args[1] if len(src.args) > 1 else None)
                what = "convert_none_grads_to_zeros(%s, %s) after autograd.grad(.., inputs=%s)" % (ast.unparse(g), ast.unparse(ref), ast.unparse(inp) if inp is not None else "?")
                if inp is not None and ast.unparse(inp) == ast.unparse(ref):
                    R.ok(f.fq, what)
                else:
                    R.bad(f, enclosing_stmt(c), "the zero gradients are shaped like `%s`, but the gradients were taken w.r.t. `%s`: an unused tensor gets a zero of the "
                          "wrong shape (or an index error) whenever the two lists differ" % (ast.unparse(ref), ast.unparse(inp) if inp is not None else "?"), what=what)
    return n


TENSOR_SPACE_SOURCES = ("saved_tensors", "get_tensor_params")
FULL_SPACE_SOURCES = ("reconstruct_params",)


def ac10_index_space(fc: FnCls, R: RuleResult) -> int:
    """The count of explicit parameters (`nparams`, positions in the FULL argument list) may only slice lists that live in the full
    argument space - forward's *allparams or the result of param_sep.reconstruct_params(..) - never a tensor-only list
    (ctx.saved_tensors[..], get_tensor_params(), or copies of those), whose positions are shifted by every non-tensor argument."""
    n = 0
    mod = fc.backward.module
    count_names = {"nparams", "nfparams", "npparams"} & (set(fc.fixed) | {"nparams", "nfparams", "npparams"})
    fns = [f for f in mod.functions.values() if f is fc.backward or f is fc.forward or f.qualname.startswith(fc.backward.qualname + ".")]
    space = _list_spaces(fc, fns)
    for f in fns:
        cn = {c for c in count_names}
        # local aliases of the counts: nparams = ctx.nparams
        for s in ast.walk(f.node):
            if isinstance(s, ast.Assign) and len(s.targets) == 1 and isinstance(s.targets[0], ast.Name) and isinstance(s.value, ast.Attribute) \
                    and s.value.attr in count_names:
                cn.add(s.targets[0].id)
        for sub in ast.walk(f.node):
            if isinstance(sub, ast.Subscript) and isinstance(sub.slice, ast.Slice) and isinstance(sub.value, (ast.Name, ast.Call)):
                used = {x.id for b in (sub.slice.lower, sub.slice.upper) if b is not None for x in ast.walk(b) if isinstance(x, ast.Name)}
                if not (used & cn):
                    continue
                n += 1
                sp = space.get(sub.value.id) if isinstance(sub.value, ast.Name) else _space_of(sub.value, space)
                what = "%s in %s: `%s` lives in the %s argument space" % (ast.unparse(sub), f.qualname, ast.unparse(sub.value)[:60], sp or "unknown")
                if sp == "full":
                    R.ok(f.fq, what)
                elif sp in ("tensor", "mixed"):
                    R.bad(f, enclosing_stmt(sub), "the explicit-parameter count slices a tensor-only list: positions are shifted by every non-tensor argument, "
                          "so the user function receives the wrong arguments when params mixes tensors and non-tensors", what=what)
                else:
                    R.bad(f, enclosing_stmt(sub), "cannot establish that `%s` is in the full argument space before it is sliced by the parameter count" % ast.unparse(sub.value)[:60], what=what)
    return n


def _list_spaces(fc: FnCls, fns) -> Dict[str, str]:
    """list space by name ('full' argument space / 'tensor'-only space / 'mixed'), flow-insensitive over backward and its closures (names
    are unique enough inside one backward)"""
    space: Dict[str, str] = {}
    if fc.vararg:
        space[fc.vararg] = "full"
    changed = True
    it = 0
    while changed and it < 6:
        changed = False
        it += 1
        for f in fns:
            for s in ast.walk(f.node):
                if not (isinstance(s, ast.Assign) and len(s.targets) == 1 and isinstance(s.targets[0], ast.Name)):
                    continue
                nm, v = s.targets[0].id, s.value
                sp = _space_of(v, space)
                if sp is not None and space.get(nm) != sp:
                    if nm in space and space[nm] != sp:
                        space[nm] = "mixed"
                    else:
                        space[nm] = sp
                    changed = True
    return space


def _space_of(v: ast.AST, space: Dict[str, str]) -> Optional[str]:
    src = ast.unparse(v)
    if isinstance(v, ast.Call):
        fn = ast.unparse(v.func)
        if fn.split(".")[-1] in FULL_SPACE_SOURCES:
            return "full"
        if fn.split(".")[-1] == "get_tensor_params":
            return "tensor"
        if fn in ("list", "tuple") and v.args:
            return _space_of(v.args[0], space)
        if is_autograd_grad(v):
            inp = _kw(v, "inputs") or (v.args[1] if len(v.args) > 1 else None)
            return _space_of(inp, space) if inp is not None else None
    if "saved_tensors" in src and not isinstance(v, ast.Call):
        return "tensor"
    if isinstance(v, ast.Name):
        return space.get(v.id)
    if isinstance(v, ast.Subscript) and isinstance(v.value, ast.Name):
        return space.get(v.value.id)
    if isinstance(v, ast.ListComp) and len(v.generators) == 1 and isinstance(v.generators[0].iter, ast.Name):
        return space.get(v.generators[0].iter.id)
    return None


# ---------------------------------------------------------------------------------------------------- AC15
def ac15_gradient_scatter(model: Model, fc: FnCls, R: RuleResult) -> int:
    """The gradients of a Function whose forward split its arguments with a TensorNonTensorSeparator are computed for the tensor group
    only; backward must return them at the positions *that separator* took the tensors from (None elsewhere).  `<sep>.reconstruct_params(
    grads, nones)` does that by construction (AC-SEP decides the method).  Any other way of building the returned list is evaluated
    abstractly: the statements that build it are run (domains/kinds.py) on a symbolic argument list that mixes differentiable tensors,
    tensors that do not require grad and non-tensors, with the separator's own __init__ deciding the split - a scatter by a different
    classification (e.g. isinstance alone) puts gradients at the wrong arguments as soon as a parameter is a tensor without grad."""
    from ..domains.dictsem import Tok, Unsupported, Raised, ADict
    from ..domains.kinds import KindInterp, AObj
    bw = fc.backward
    rets = [r for r in own_nodes(bw.node) if isinstance(r, ast.Return) and isinstance(r.value, ast.Tuple)]
    defs = function_defs(bw.node)
    n = 0
    for r in rets:
        for st in [e for e in r.value.elts if isinstance(e, ast.Starred)]:
            n += 1
            v = st.value
            what = "%s returns *%s" % (bw.qualname, ast.unparse(v)[:50])
            srcs = defs.get(v.id, []) if isinstance(v, ast.Name) else [v]
            if srcs and all(isinstance(d, ast.Call) and isinstance(d.func, ast.Attribute) and d.func.attr == "reconstruct_params" for d in srcs):
                R.ok(bw.fq, what + " = %s: laid out by the separator that made the split" % ast.unparse(srcs[0])[:70])
                continue
            if not isinstance(v, ast.Name):
                R.undecided(bw, r, "cannot identify how the returned gradient list `%s` is laid out" % ast.unparse(v)[:60], what=what)
                continue
            try:
                msg = _abstract_scatter(model, fc, v.id, Tok, KindInterp, AObj, ADict)
            except (Unsupported, TypeError, AttributeError, KeyError, IndexError, ValueError) as e:
                R.undecided(bw, r, "cannot interpret how the returned gradient list `%s` is built (%s)" % (v.id, e), what=what)
                continue
            except Raised as e:
                msg = "building the list raises (%s)" % e
            if msg:
                R.bad(bw, r, "the gradients are not returned at the positions of the arguments they belong to: %s" % msg, what=what)
            else:
                R.ok(bw.fq, what + ": built by hand; abstract run puts every gradient at the position the separator took its tensor from")
    return n


def _abstract_scatter(model, fc, name, Tok, KindInterp, AObj, ADict) -> Optional[str]:
    bw = fc.backward
    spaces = _list_spaces(fc, [bw, fc.forward])
    # the statements that build `name`, cut at lists whose space is known and at the separator
    top = [s for s in bw.node.body]

    def flat(stmts):
        for s in stmts:
            if isinstance(s, ast.With):
                yield from flat(s.body)
            else:
                yield s
    stmts = list(flat(top))
    needed = {name}
    keep = []
    sep_names = set()

    def is_sep(e) -> bool:
        t = ast.unparse(e)
        return t.endswith("param_sep") or t in sep_names
    for s in stmts:
        if isinstance(s, ast.Assign) and len(s.targets) == 1 and isinstance(s.targets[0], ast.Name) and isinstance(s.value, ast.Attribute) \
                and s.value.attr.endswith("param_sep"):
            sep_names.add(s.targets[0].id)
    for s in reversed(stmts):
        if isinstance(s, (ast.FunctionDef, ast.Return)):
            continue
        stores = {x.id for x in ast.walk(s) if isinstance(x, ast.Name) and isinstance(x.ctx, ast.Store)}
        stores |= {x.value.id for x in ast.walk(s) if isinstance(x, ast.Subscript) and isinstance(x.ctx, ast.Store) and isinstance(x.value, ast.Name)}
        stores |= {x.func.value.id for x in ast.walk(s) if isinstance(x, ast.Call) and isinstance(x.func, ast.Attribute) and isinstance(x.func.value, ast.Name)
                   and x.func.attr in ("append", "extend", "insert")}
        if not (stores & needed):
            continue
        cut = isinstance(s, ast.Assign) and len(s.targets) == 1 and isinstance(s.targets[0], ast.Name) and \
            (spaces.get(s.targets[0].id) in ("full", "tensor") or s.targets[0].id in sep_names) and s.targets[0].id != name
        if cut:
            continue
        keep.append(s)
        for x in ast.walk(s):
            if isinstance(x, ast.Name) and isinstance(x.ctx, ast.Load):
                needed.add(x.id)
    keep.reverse()
    if not keep:
        raise ValueError("no statement builds it")
    # the symbolic argument list and the split the separator's own constructor makes of it
    T = lambda nm, rg=True: Tok(nm, True, rg)
    N = lambda nm: Tok(nm, False, False)
    params = [T("T1"), N("N1"), T("T2"), T("T3", False), N("N2"), T("T4")]
    cls = model.cls("xitorch/_utils/misc.py", "TensorNonTensorSeparator")
    init = cls.find_method("__init__")
    ctor_kw = {}
    for c in own_nodes(fc.forward.node):
        if isinstance(c, ast.Call) and ast.unparse(c.func).split(".")[-1] == "TensorNonTensorSeparator":
            for k in c.keywords:
                if k.arg and isinstance(k.value, ast.Constant):
                    ctor_kw[k.arg] = k.value.value
    it = KindInterp({init.params()[1]: list(params), **{p_: ctor_kw.get(p_, True) for p_ in init.params()[2:3]}})
    it.call_function(init.node)
    sn = init.params()[0]
    state = {k[len(sn) + 1:]: v for k, v in it.env.items() if k.startswith(sn + ".")}
    gt = cls.find_method("get_tensor_params")
    tens = KindInterp({gt.params()[0] + "." + k: v for k, v in state.items()}).call_function(gt.node)
    tens_names = [t.name for t in tens]
    want_pos = [i for i, p_ in enumerate(params) if p_.name in tens_names]

    def method(mname):
        m = cls.find_method(mname)

        def run(*args):
            ps = m.params()
            env = {ps[0] + "." + k: v for k, v in state.items()}
            for p_, a in zip(ps[1:], args):
                env[p_] = a
            for p_, d_ in zip(ps[::-1], list(m.node.args.defaults)[::-1]):
                if p_ not in env:
                    env[p_] = ast.literal_eval(d_)
            return KindInterp(env).call_function(m.node)
        return run
    sep = AObj("separator", attrs=dict(state))
    for mname in ("reconstruct_params", "get_tensor_params", "ntensors", "nnontensors"):
        if cls.find_method(mname) is not None:
            sep.methods[mname] = method(mname)
    env: Dict[str, Any] = {}
    for nm in needed:
        if nm in sep_names:
            env[nm] = sep
        elif spaces.get(nm) == "full" and nm != name:
            env[nm] = list(params)
        elif spaces.get(nm) == "tensor" and nm != name:
            env[nm] = [Tok("%s#%d" % (nm, k), True, True) for k in range(len(tens))]
    env["ctx"] = AObj("ctx", attrs={a: sep for a in ("param_sep",)})
    run = KindInterp(env)
    run.run(keep)
    res = run.env.get(name)
    if not isinstance(res, (list, tuple)) or len(res) != len(params):
        return "for the arguments %s the returned list is %s (one entry per argument is needed)" % (params, res)
    for i, x in enumerate(res):
        if i in want_pos:
            k = want_pos.index(i)
            if not (isinstance(x, Tok) and x.name.endswith("#%d" % k)):
                return "for the arguments %s (differentiable tensors %s) the entry of argument %d (%s) is %s, not the %d-th gradient; the list is %s" % (
                    params, tens_names, i, params[i], x, k, list(res))
        elif x is not None:
            return "for the arguments %s (differentiable tensors %s) argument %d (%s) is not in the tensor group but receives %s; the list is %s" % (
                params, tens_names, i, params[i], x, list(res))
    return None


# ---------------------------------------------------------------------------------------------------- AC-SEP
def separator_inverse(model: Model, R: RuleResult) -> int:
    """TensorNonTensorSeparator: __init__ records, for every position i of the argument list, whether it went to the tensor group
    or the other group (`*_idxs.append(i)` beside `*_params.append(p)`); reconstruct_params must be the inverse permutation, i.e. a
    *scatter*: out[idx] = p for (idx, p) in zip(<group idxs>, <group values>), for both groups, into a list of length nparams.
    (Subscripting a concatenation by the recorded indices - a gather - applies the permutation a second time instead.)"""
    cls = model.cls("xitorch/_utils/misc.py", "TensorNonTensorSeparator")
    init, rec = cls.find_method("__init__"), cls.find_method("reconstruct_params")
    from ..domains.dictsem import Tok, Unsupported, Raised
    from ..domains.kinds import KindInterp
    import itertools as _it

    class DictInterp(KindInterp):          # closures, host functions (itertools), heap values on top of the dictionary interpreter
        host = {"itertools.chain": lambda *xs: [y for x in xs for y in x], "chain": lambda *xs: [y for x in xs for y in x],
                "itertools.accumulate": lambda xs, *a, **k: list(_it.accumulate(xs, *a, **k))}
    # abstract round trip: split a symbolic argument list, then put fresh tensors back - for every spelling of the two methods
    T = lambda nm, rg=True: Tok(nm, True, rg)
    N = lambda nm: Tok(nm, False, False)
    scenarios = [
        ("mixed", [T("T1"), N("N1"), T("T2"), T("T3", False), N("N2"), T("T4")]),
        ("tensor last / first", [N("N1"), T("T1"), T("T2"), N("N2")]),
        ("all tensors", [T("T1"), T("T2"), T("T3")]),
        ("no tensors", [N("N1"), N("N2")]),
    ]
    # the same tensor object passed in two slots: each slot is an argument of its own (the function is differentiated w.r.t. each position; the
    # gradient of the object is the sum autograd accumulates), so both slots belong to the tensor group and both receive a fresh tensor
    _Ta = T("T1")
    scenarios.append(("one tensor in two slots", [_Ta, N("N1"), _Ta, T("T2")]))
    selfname = init.params()[0]
    n = 0
    for label, params in scenarios:
        n += 1
        try:
            it = DictInterp({init.params()[1]: list(params), **({init.params()[2]: True} if len(init.params()) > 2 else {})})
            it.call_function(init.node)
            state = {k: v for k, v in it.env.items() if k.startswith(selfname + ".")}
            want_t = [p_ for p_ in params if p_.is_tensor and p_.requires_grad]
            got_t = None
            gt = cls.find_method("get_tensor_params")
            if gt is not None:
                it2 = DictInterp(dict(state))
                got_t = it2.call_function(gt.node)
            if got_t is not None and [x.name for x in got_t] != [x.name for x in want_t]:
                R.bad(init, init.node, "%s: the tensor group is %s, expected the differentiable tensors in argument order %s" % (label, got_t, want_t))
                continue
            fresh = [Tok(p_.name + "'", True, True) for p_ in want_t]
            it3 = DictInterp(dict(state))
            rsel = rec.params()[0]
            it3.env.update({k.replace(selfname + ".", rsel + ".", 1): v for k, v in state.items()})
            it3.env[rec.params()[1]] = list(fresh)
            if len(rec.params()) > 2:
                it3.env[rec.params()[2]] = None
            res = it3.call_function(rec.node)
            fr = iter(fresh)
            want = [next(fr) if (p_.is_tensor and p_.requires_grad) else p_ for p_ in params]
            if not isinstance(res, (list, tuple)) or [x.name for x in res] != [x.name for x in want]:
                R.bad(rec, rec.node, "%s: reconstruct_params(%s) gives %s, expected %s: the tensors are not put back at the positions they were taken from "
                      "(every Function that separates its arguments then pairs gradients with the wrong arguments)" % (label, fresh, res, want))
            else:
                R.ok(rec.fq, "%s: split and reconstruct are inverse (%s -> %s)" % (label, params, res))
        except (Unsupported, TypeError, AttributeError, KeyError, IndexError, ValueError) as e:
            R.undecided(rec, rec.node, "cannot interpret TensorNonTensorSeparator abstractly (%s)" % e)
            return n
        except Raised as e:
            R.bad(rec, rec.node, "%s: the round trip raises (%s)" % (label, e))
    return n


# ---------------------------------------------------------------------------------------------------- AC11 / AC12
REBIND_OK = {"method", "mode", "neig"}
REBIND_OK_PER = {"solve_ivp": {"y0"}}      # a tuple y0 is flattened by the packer (C07-P)


def ac11_wrapper_returns(model: Model, fc: FnCls, R: RuleResult) -> int:
    """Every exit of a public functional returns the Function's output (possibly re-packed by the packer that flattened the
    arguments) or the result of another function of the package - never a freshly built tensor: a shortcut such as
    `if xl == xu: return torch.zeros_like(out)` is disconnected from autograd (all gradients, incl. those w.r.t. the limits, vanish).
    AC12: the operands are handed on unchanged: no parameter other than the normalised option names is re-bound."""
    n = 0
    seen = set()
    for f, call in apply_sites(model, fc):
        if f.fq in seen or f.parent is not None or f.cls is not None:
            continue
        seen.add(f.fq)
        defs = function_defs(f.node)
        for r in own_nodes(f.node):
            if not isinstance(r, ast.Return) or r.value is None:
                continue
            n += 1
            v = r.value
            ok = False
            why = ast.unparse(v)[:60]
            for _ in range(3):
                if isinstance(v, ast.Name) and len(defs.get(v.id, [])) == 1:
                    v = defs[v.id][0]
            if isinstance(v, ast.Call):
                fn = ast.unparse(v.func)
                if fn.endswith(".apply"):
                    rr = model.resolve_expr(f.module, v.func.value) if isinstance(v.func, ast.Attribute) else None
                    ok = bool(rr and rr[0] == "class" and rr[1] is fc.ci)
                elif isinstance(v.func, ast.Attribute) and v.func.attr == "pack" and len(v.args) == 1:
                    a = v.args[0]
                    d = defs.get(a.id, []) if isinstance(a, ast.Name) else [a]
                    ok = len(d) == 1 and isinstance(d[0], ast.Call) and ast.unparse(d[0].func).endswith(".apply")
                else:
                    tgt = resolve_call(model, f, v)
                    ok = tgt is not None
            if ok:
                R.ok(f.fq, "%s returns `%s`" % (f.name, why))
            else:
                R.bad(f, r, "%s returns `%s`, which is neither the output of %s.apply (possibly re-packed) nor the result of another xitorch function: the value is "
                      "disconnected from the differentiable implementation" % (f.name, why, fc.name))
        params = set(f.all_params())
        allowed = REBIND_OK | REBIND_OK_PER.get(f.name, set())
        reb = sorted({x.id for x in ast.walk(f.node) if isinstance(x, ast.Name) and isinstance(x.ctx, ast.Store) and x.id in params and x.id not in allowed})
        n += 1
        if not reb:
            R.ok(f.fq, "%s hands its operands on unchanged (only %s may be normalised)" % (f.name, sorted(allowed & params)))
        else:
            st = [s for s in ast.walk(f.node) if isinstance(s, (ast.Assign, ast.AugAssign)) and any(isinstance(x, ast.Name) and isinstance(x.ctx, ast.Store) and x.id in reb for x in ast.walk(s))]
            R.bad(f, st[0] if st else f.node, "%s re-binds its operand(s) %s before dispatch: the implementation no longer sees what the caller passed "
                  "(e.g. batch dimensions carried only by a dropped operand are lost)" % (f.name, reb))
    return n


FORWARD_SHORTCUTS = {"solve_torchfcn": "torch.zeros"}     # B == 0: the solution is exactly zero (guarded by torch.all(B == 0))


def ac11_forward_provenance(model: Model, fc: FnCls, R: RuleResult) -> int:
    """In forward, every reaching definition of the returned solution is the call of the implementation obtained from get_method
    (or the documented zero shortcut of solve): no path bypasses the dispatched solver."""
    fw = fc.forward
    defs = function_defs(fw.node)
    impl_names = {nm for nm, ds in defs.items() if any(isinstance(d, ast.Call) and ast.unparse(d.func).split(".")[-1] == "get_method" for d in ds)}
    if not impl_names:
        return 0
    rets = own_returns(fw)
    n = 0
    outs = set()
    for r in rets:
        for e in (r.value.elts if isinstance(r.value, ast.Tuple) else [r.value]):
            if isinstance(e, ast.Name):
                outs.add(e.id)
    # names produced by the implementation call (tuple targets included)
    produced = set()
    others = {}
    for s in ast.walk(fw.node):
        if isinstance(s, ast.Assign):
            tnames = [x.id for t in s.targets for x in (t.elts if isinstance(t, ast.Tuple) else [t]) if isinstance(x, ast.Name)]
            if isinstance(s.value, ast.Call) and isinstance(s.value.func, ast.Name) and s.value.func.id in impl_names:
                produced |= set(tnames)
            else:
                for tn in tnames:
                    others.setdefault(tn, []).append(s)
    for o in sorted(outs):
        if o not in produced:
            continue
        n += 1
        extra = []
        for s in others.get(o, []):
            src = ast.unparse(s.value)
            if fc.name in FORWARD_SHORTCUTS and (src.startswith(FORWARD_SHORTCUTS[fc.name]) or
                                                 (isinstance(s.value, ast.Call) and ast.unparse(s.value.func).split(".")[-1] in ("new_zeros", "zeros_like"))):
                continue
            extra.append(s)
        if not extra:
            R.ok(fw.fq, "%s.forward: `%s` is produced only by the dispatched implementation%s" % (fc.name, o, " (or the documented zero shortcut)" if fc.name in FORWARD_SHORTCUTS else ""))
        else:
            R.bad(fw, extra[0], "%s.forward: the returned `%s` can also come from `%s`, bypassing the implementation selected by `method` (its convergence test and warning included)"
                  % (fc.name, o, norm_stmt(extra[0], 70)))
    return n
