"""Findings, rule results, evidence, known findings, exit codes."""
from __future__ import annotations
import json
import os
import re
import hashlib
import time
from typing import List, Dict, Optional, Any

VERIF = os.path.dirname(os.path.dirname(os.path.abspath(__file__)))


class Finding:
    def __init__(self, prop, rule, qualname, stmt, file, line, message, extra=None):
        self.prop = prop
        self.rule = rule
        self.qualname = qualname      # fully qualified "relpath::Qual.name"
        self.stmt = stmt              # normalised statement text (never a line number)
        self.file = file
        self.line = line
        self.message = message
        self.extra = extra or {}

    @property
    def key(self):
        return "%s|%s|%s|%s" % (self.prop, self.rule, self.qualname, self.stmt)

    def short(self):
        return "%s:%s: [%s/%s] %s -- `%s` (%s)" % (self.file, self.line, self.prop, self.rule,
                                                   self.message, self.stmt, self.qualname)

    def to_json(self):
        return dict(property=self.prop, rule=self.rule, qualname=self.qualname, stmt=self.stmt,
                    file=self.file, line=self.line, message=self.message, key=self.key, extra=self.extra)


UNRECOGNISED_PHRASES = ("cannot find", "cannot identify", "not recognisabl", "was not found", "not found in", "is not found", "cannot tell", "cannot determine")


class RuleResult:
    """Outcome of one rule on the tree: the instances (obligations) examined and the findings."""

    def __init__(self, prop, rule, description, min_instances=1):
        self.prop = prop
        self.rule = rule
        self.description = description
        self.min_instances = min_instances
        self.instances: List[Dict[str, Any]] = []
        self.findings: List[Finding] = []
        self.notes: List[str] = []
        self.paths = 0
        self.controls: List[Dict[str, Any]] = []
        self.undecided_items: List[str] = []

    def ok(self, where, what, **kw):
        d = dict(where=where, what=what, verdict="ok")
        d.update(kw)
        self.instances.append(d)

    def bad(self, fi_or_fq, node, message, file=None, what=None, **extra):
        """record a violated instance.  A message that only says the rule could not *recognise* its construct is not a violation:
        it is routed to `undecided` (nothing was shown to be wrong)."""
        from .model import norm_stmt
        low = message.lower()
        if any(ph in low for ph in UNRECOGNISED_PHRASES):
            return self.undecided(fi_or_fq, node, message)
        if hasattr(fi_or_fq, "fq"):
            fq = fi_or_fq.fq
            file = fi_or_fq.module.relpath
        else:
            fq = fi_or_fq
            file = file or fq.split("::")[0]
        stmt = norm_stmt(node) if not isinstance(node, str) else node
        line = getattr(node, "lineno", 0) if not isinstance(node, str) else extra.pop("line", 0)
        f = Finding(self.prop, self.rule, fq, stmt, file, line, message, extra)
        self.findings.append(f)
        self.instances.append(dict(where=fq, what=what or stmt, verdict="VIOLATION", message=message))
        return f

    def note(self, s):
        self.notes.append(s)

    def undecided(self, fi_or_fq, node, message):
        """the rule could not recognise the construct it reasons about (re-written beyond the forms it knows): no verdict.  Reported as
        an analysis problem (exit 2 unless something else is a definite violation) - never as a violation, because nothing was shown
        to be wrong."""
        fq = fi_or_fq.fq if hasattr(fi_or_fq, "fq") else fi_or_fq
        line = getattr(node, "lineno", 0) if not isinstance(node, str) else 0
        self.undecided_items.append("%s (%s:%s): %s" % (self.rule, fq, line, message))
        self.instances.append(dict(where=fq, what=message, verdict="undecided"))


class KnownFindings:
    def __init__(self, path=None):
        self.path = path or os.path.join(VERIF, "known_findings.json")
        self.entries = []
        self.fixed = []
        if os.path.exists(self.path):
            with open(self.path) as f:
                data = json.load(f)
            self.entries = data.get("known", [])
            self.fixed = data.get("fixed", [])

    def match(self, finding: Finding) -> Optional[dict]:
        for e in self.entries:
            if e.get("key") == finding.key:
                return e
        return None


def run_check(prop: str, tier: str, rules_fn, repo: str, seed: int = 0, level: str = "other",
              explanation: str = "", assumptions: Optional[List[str]] = None,
              evidence_path: Optional[str] = None, quiet: bool = False, only: Optional[dict] = None) -> int:
    """Drive one property check: build the model, run the rules, print, write evidence, return the exit code."""
    from .model import Model, AnalysisError
    t0 = time.time()
    out_dir = os.path.join(os.environ.get("XV_OUT_DIR") or os.path.join(VERIF, "out"), prop)
    evidence_path = evidence_path or os.path.join(VERIF, "evidence", "%s.json" % prop)
    os.makedirs(os.path.dirname(evidence_path), exist_ok=True)
    try:
        model = Model(repo)
        from .rules import generic
        deferred_error = None
        try:
            results: List[RuleResult] = list(rules_fn(model, tier))
        except AnalysisError as e:
            # the property-specific interpreters could not decide; the package-wide ownership rules still can
            results = []
            deferred_error = str(e)
        common = generic.common_rules(model, prop, tier)
        if deferred_error is not None and not any(r.findings for r in common):
            raise AnalysisError(deferred_error)
        results = results + common
    except AnalysisError as e:
        print("ANALYSIS-ERROR property=%s %s" % (prop, e))
        _write_evidence(evidence_path, prop, tier, seed, level, dict(
            explanation="analysis could not complete: %s" % e, obligations=0, discharged=0, samples=[]),
            assumptions or [], time.time() - t0, 0, status="analysis-error")
        return 2
    except Exception as e:  # never let a traceback masquerade as a violation
        import traceback
        traceback.print_exc()
        print("ANALYSIS-ERROR property=%s internal error: %r" % (prop, e))
        _write_evidence(evidence_path, prop, tier, seed, level, dict(
            explanation="internal error: %r" % e, obligations=0, discharged=0, samples=[]),
            assumptions or [], time.time() - t0, 0, status="analysis-error")
        return 2

    known = KnownFindings()
    stats = model.stats()
    print("[%s/%s] analysed %d modules, %d classes, %d functions of %s (tree digest %s)" %
          (prop, tier, stats["modules"], stats["classes"], stats["functions"], repo, model.digest()))
    violations: List[Finding] = []
    known_hits: List[Finding] = []
    analysis_errors: List[str] = []
    n_inst = 0
    n_ok = 0
    samples = []
    rules_summary = []
    for r in results:
        n_inst += len(r.instances)
        okc = sum(1 for i in r.instances if i["verdict"] == "ok")
        n_ok += okc
        status = "ok"
        if len(r.instances) < r.min_instances:
            analysis_errors.append("rule %s matched %d instance(s), fewer than the %d confirmed by hand "
                                   "(a rule must not pass vacuously)" % (r.rule, len(r.instances), r.min_instances))
            status = "too-few-instances"
        for u in getattr(r, "undecided_items", []):
            analysis_errors.append("undecided: " + u)
            status = "undecided"
        for c in r.controls:
            if not c.get("ok"):
                analysis_errors.append("rule %s control %s failed: %s" % (r.rule, c.get("name"), c.get("detail")))
                status = "control-failed"
        for f in r.findings:
            if known.match(f):
                known_hits.append(f)
            else:
                violations.append(f)
        if r.findings and status == "ok":
            status = "violated"
        rules_summary.append(dict(rule=r.rule, description=r.description, instances=len(r.instances),
                                  ok=okc, findings=len(r.findings), status=status,
                                  controls=r.controls, notes=r.notes, paths=r.paths))
        if not quiet:
            print("  rule %-8s %-16s %3d instance(s), %d ok, %d finding(s)%s  -- %s" %
                  (r.rule, status, len(r.instances), okc, len(r.findings),
                   (", %d path(s)" % r.paths) if r.paths else "", r.description))
            for n in r.notes:
                print("      note: %s" % n)
        for i in r.instances[:3]:
            samples.append(dict(rule=r.rule, **{k: (v if isinstance(v, (int, float, str, bool, type(None), list, dict)) else str(v)) for k, v in i.items()}))

    for f in known_hits:
        print("KNOWN-FINDING: property=%s %s" % (prop, f.short()))
    rc = 0
    os.makedirs(out_dir, exist_ok=True)
    # stale replay files of earlier runs are removed so that the directory reflects this run
    for fn in os.listdir(out_dir):
        if fn.endswith(".json"):
            try:
                os.remove(os.path.join(out_dir, fn))
            except OSError:
                pass
    for f in violations:
        h = hashlib.sha1(f.key.encode()).hexdigest()[:10]
        rp = os.path.join(out_dir, "%s-%s.json" % (re.sub(r"[^A-Za-z0-9_-]", "_", f.rule), h))
        with open(rp, "w") as fh:
            json.dump(f.to_json(), fh, indent=1)
        print("  " + f.short())
        print("VIOLATION property=%s replay=%s" % (prop, rp))
        rc = 1
    if deferred_error is not None:
        analysis_errors.append("the property-specific rules could not be decided on this tree: %s" % deferred_error)
    if analysis_errors and rc == 0:
        for a in analysis_errors:
            print("ANALYSIS-ERROR property=%s %s" % (prop, a))
        rc = 2
    elif analysis_errors:
        for a in analysis_errors:
            print("  (also) analysis problem: %s" % a)

    selfval = None
    if tier == "thorough" and rc == 0 and not os.environ.get("XV_NO_SELFVAL"):
        selfval, sv_errors = _self_validation(prop, repo)
        for a in sv_errors:
            print("ANALYSIS-ERROR property=%s %s" % (prop, a))
        if sv_errors:
            rc = 2
    cov = dict(
        explanation=explanation,
        obligations=n_inst,
        discharged=n_ok,
        rules=rules_summary,
        modules_analysed=stats["modules"], classes_analysed=stats["classes"], functions_analysed=stats["functions"],
        tree_digest=model.digest(),
        paths=sum(r.paths for r in results),
        known_findings=[f.key for f in known_hits],
        samples=samples[:40],
        exhaustive=False,
    )
    if selfval is not None:
        cov["mutation_self_validation"] = selfval
    extra_cov = getattr(rules_fn, "extra_coverage", None)
    if extra_cov:
        cov.update(extra_cov)
    _write_evidence(evidence_path, prop, tier, seed, level, cov, assumptions or [], time.time() - t0,
                    len(violations), status={0: "ok", 1: "violation", 2: "analysis-error"}[rc])
    print("[%s/%s] %d rule(s), %d obligation(s), %d discharged, %d violation(s), %d known finding(s), %.2fs -> exit %d" %
          (prop, tier, len(results), n_inst, n_ok, len(violations), len(known_hits), time.time() - t0, rc))
    return rc


def _self_validation(prop: str, repo: str):
    """thorough tier: apply every registered mutant of this property to a scratch copy of the *current* tree (outside /repo and
    /verif, removed afterwards) and require the check to fire and name the expected rule; equivalent re-spellings must stay
    silent.  A mutant whose pattern is gone is skipped; an applied but undetected mutant is a checker regression (exit 2)."""
    import sys
    st = os.path.join(VERIF, "selftest")
    if st not in sys.path:
        sys.path.insert(0, st)
    try:
        import harness
    except Exception as e:  # pragma: no cover
        return dict(status="unavailable", detail=repr(e)), []
    t0 = time.time()
    res = harness.run_all(repo, {prop}, jobs=min(16, os.cpu_count() or 4), verbose=False)
    from collections import Counter
    c = Counter(r["status"] for r in res)
    errors = []
    for r in res:
        if r["status"] not in ("killed", "ok-silent", "known-limit", "skipped"):
            errors.append("self-validation: mutant %s -> %s (the check no longer detects a change it is built to catch, or raises a false alarm "
                          "on an equivalent re-spelling)" % (r["id"], r["status"]))
    print("  self-validation: %d mutant(s) of %s on a scratch copy of the current tree: %s (%.1fs)" % (len(res), prop, dict(c), time.time() - t0))
    return dict(mutants=len(res), outcome=dict(c), killed=[r["id"] for r in res if r["status"] == "killed"][:200],
                silent_on_equivalent=[r["id"] for r in res if r["status"] == "ok-silent"],
                skipped=[r["id"] for r in res if r["status"] == "skipped"], wall_s=round(time.time() - t0, 2)), errors


def _write_evidence(path, prop, tier, seed, level, coverage, assumptions, wall, violations, status="ok"):
    ev = dict(property_id=prop, tier=tier, seed=int(seed), level=level, coverage=coverage,
              assumptions=assumptions, wall_s=round(wall, 3), violations=violations, status=status)
    tmp = path + ".tmp"
    with open(tmp, "w") as f:
        json.dump(ev, f, indent=1, default=str)
    os.replace(tmp, path)
