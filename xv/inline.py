"""Load-time inlining of *new* private helpers.

"Extract a helper" is the most common behaviour-preserving refactoring: a block of an anchored function moves into a new
private function (or method) and is replaced by a call.  The rules are written for the anchored functions of the reference
tree; instead of teaching every rule to follow calls, helpers that do not exist in the reference version of the module are
inlined back into their callers when the module is loaded (before the other normal forms and before alpha-normalisation):

  * a helper is inlined only if that is plainly value-preserving: an ordinary function or method of the same module that is
    not in the reference function table, without decorators (staticmethod / classmethod aside), generators, nested scopes,
    global / nonlocal, *args / **kwargs, recursion; with at most one `return`, which is its last statement;
  * expression-bodied helpers (`return <expr>`) are substituted as expressions at every call site;
  * statement-bodied helpers are inlined at statement level: the call must be the whole right-hand side of an assignment,
    the value of a `return`, or an expression statement; other call sites are first hoisted into a temporary when they are
    evaluated unconditionally in their statement (not inside a lambda, comprehension, conditional expression or the right
    operand of and / or);
  * arguments that are names, constants or attribute chains are substituted, anything else is bound to a temporary first;
    the helper's locals keep their names unless they collide with a name of the caller;
  * a helper all of whose call sites were inlined is dropped from the module; otherwise it stays and the rules see both.

The transformation is only applied to the copy of the program the rules analyse; nothing is executed."""
from __future__ import annotations
import ast
import copy
from typing import Dict, List, Optional, Set, Tuple

_FUNCS = (ast.FunctionDef, ast.AsyncFunctionDef)
_SIMPLE_ARG = (ast.Name, ast.Constant, ast.Attribute)


def _params(fn) -> List[ast.arg]:
    return list(fn.args.posonlyargs) + list(fn.args.args)


def _body_without_doc(fn) -> List[ast.stmt]:
    b = list(fn.body)
    if b and isinstance(b[0], ast.Expr) and isinstance(b[0].value, ast.Constant) and isinstance(b[0].value.value, str):
        b = b[1:]
    return b


def _inlinable(fn: ast.FunctionDef, is_method: bool) -> Optional[str]:
    """None if fn can be inlined, else the reason why not"""
    decos = [ast.unparse(d) for d in fn.decorator_list]
    if any(d not in ("staticmethod", "classmethod") for d in decos):
        return "decorated"
    if fn.args.vararg or fn.args.kwarg:
        return "variadic"
    body = _body_without_doc(fn)
    if not body:
        return "empty"
    nested_nodes = {id(x) for d in ast.walk(fn) if d is not fn and isinstance(d, _FUNCS + (ast.Lambda,)) for x in ast.walk(d) if x is not d}
    for n in ast.walk(fn):
        if n is fn:
            continue
        if isinstance(n, ast.ClassDef):
            return "nested class"
        if isinstance(n, (ast.Global, ast.Nonlocal)):
            return "global / nonlocal"
        if id(n) in nested_nodes:
            continue                       # inside a nested function: its own returns / yields are its own business
        if isinstance(n, (ast.Yield, ast.YieldFrom, ast.Await)):
            return "generator"
        if isinstance(n, ast.Call) and isinstance(n.func, ast.Name) and n.func.id == fn.name:
            return "recursive"
        if isinstance(n, ast.Call) and isinstance(n.func, ast.Attribute) and n.func.attr == fn.name and isinstance(n.func.value, ast.Name) \
                and n.func.value.id in ("self", "cls"):
            return "recursive"
    for n in ast.walk(fn):
        if id(n) in nested_nodes and isinstance(n, ast.Call) and isinstance(n.func, ast.Name) and n.func.id == fn.name:
            return "recursive"
    # whether the returns are all in tail position is decided per call site, on the body specialised to the constant arguments
    return None


def _own_walk(node):
    """ast.walk that yields nested function / lambda nodes but does not enter them"""
    stack = [node]
    first = True
    while stack:
        n = stack.pop()
        yield n
        if not first and isinstance(n, _FUNCS + (ast.Lambda, ast.ClassDef)):
            continue
        first = False
        stack.extend(ast.iter_child_nodes(n))


def _has_own_return(st) -> bool:
    return any(isinstance(n, ast.Return) for n in _own_walk_stmt(st))


def _own_walk_stmt(st):
    if isinstance(st, _FUNCS + (ast.ClassDef,)):
        return iter(())
    return _own_walk_first(st)


def _own_walk_first(node):
    stack = [node]
    while stack:
        n = stack.pop()
        yield n
        for ch in ast.iter_child_nodes(n):
            if isinstance(ch, _FUNCS + (ast.Lambda, ast.ClassDef)):
                continue
            stack.append(ch)


def _leaves(block) -> bool:
    if not block:
        return False
    last = block[-1]
    if isinstance(last, (ast.Return, ast.Raise)):
        return True
    if isinstance(last, ast.With):
        return _leaves(last.body)
    if isinstance(last, ast.If):
        return _leaves(last.body) and _leaves(last.orelse)
    return False


def _prune_dead(block):
    """drop the statements that follow one that always leaves the block"""
    out = []
    for st in block:
        for fld in ("body", "orelse"):
            b = getattr(st, fld, None)
            if isinstance(b, list) and b and isinstance(b[0], ast.stmt) and isinstance(st, (ast.If, ast.With)):
                setattr(st, fld, _prune_dead(b))
        out.append(st)
        if _leaves([st]):
            break
    return out


def _tail_returns_only(block) -> bool:
    """every `return` of the block is in tail position of the if / else structure (no return inside loops, with, try), so that
    the block can be rewritten without returns: `if c: ..; return A` + rest  ==  `if c: ..; r = A  else: rest'`"""
    for i, st in enumerate(block):
        last = i == len(block) - 1
        if isinstance(st, ast.Return):
            if not last:
                return False
            continue
        if isinstance(st, _FUNCS):
            continue
        if isinstance(st, ast.If):
            has_ret = _has_own_return(st)
            if not has_ret:
                continue
            if not _tail_returns_only(st.body) or not _tail_returns_only(st.orelse):
                return False
            # an arm that returns must end the arm; what follows the `if` runs only for the arms that do not leave
            for arm in (st.body, st.orelse):
                if any(_has_own_return(x) for x in arm) and not _leaves(arm):
                    return False
            continue
        if isinstance(st, ast.With) and _has_own_return(st):
            # a `with` in tail position whose own returns are in tail position: the value is computed inside the block either way
            if not last or not _tail_returns_only(st.body) or not _leaves(st.body):
                return False
            continue
        if _has_own_return(st):
            return False
    return True


def _eliminate_returns(block, build):
    """rewrite a block whose returns are all in tail position into one without returns: `return E` becomes build(E); the
    statements after an `if` with a leaving arm move into the other arm"""
    out = []
    for i, st in enumerate(block):
        if isinstance(st, ast.Return):
            out.append(build(st.value if st.value is not None else ast.Constant(value=None)))
            return out
        if isinstance(st, ast.If) and _has_own_return(st):
            rest = list(block[i + 1:])
            body = list(st.body) + ([] if _leaves(st.body) else copy.deepcopy(rest))
            orelse = list(st.orelse) + ([] if _leaves(st.orelse) else copy.deepcopy(rest))
            new = ast.If(test=st.test, body=_eliminate_returns(body, build) or [ast.Pass()], orelse=_eliminate_returns(orelse, build))
            out.append(ast.copy_location(new, st))
            return out
        if isinstance(st, ast.With) and _has_own_return(st):
            new = ast.With(items=st.items, body=_eliminate_returns(list(st.body), build) or [ast.Pass()])
            out.append(ast.copy_location(new, st))
            return out
        out.append(st)
    return out


def _fold_constant_tests(stmts):
    """`if True: A else: B` -> A (after a constant argument was substituted for a parameter)"""
    out = []
    for st in stmts:
        for fld in ("body", "orelse", "finalbody"):
            b = getattr(st, fld, None)
            if isinstance(b, list) and b and isinstance(b[0], ast.stmt):
                setattr(st, fld, _fold_constant_tests(b) or [ast.Pass()] if fld == "body" else _fold_constant_tests(b))
        if isinstance(st, ast.If) and _const_truth(st.test) is not None:
            out.extend(st.body if _const_truth(st.test) else st.orelse)
            continue
        if isinstance(st, ast.If) and isinstance(st.test, ast.UnaryOp) and isinstance(st.test.op, ast.Not) and isinstance(st.test.operand, ast.Constant):
            out.extend(st.orelse if st.test.operand.value else st.body)
            continue
        out.append(st)
    return out


def _const_truth(t) -> Optional[bool]:
    """truth of a test made of constants only: a constant, `not <const>`, `<const> is [not] None`"""
    if isinstance(t, ast.Constant) and isinstance(t.value, (bool, type(None), int, float, str)):
        return bool(t.value)
    if isinstance(t, ast.UnaryOp) and isinstance(t.op, ast.Not):
        v = _const_truth(t.operand)
        return None if v is None else not v
    if isinstance(t, ast.Compare) and len(t.ops) == 1 and isinstance(t.ops[0], (ast.Is, ast.IsNot)) and isinstance(t.left, ast.Constant) \
            and isinstance(t.comparators[0], ast.Constant) and (t.left.value is None or t.comparators[0].value is None):
        same = t.left.value is None and t.comparators[0].value is None
        return same if isinstance(t.ops[0], ast.Is) else not same
    return None


class _FoldIfExp(ast.NodeTransformer):
    def visit_IfExp(self, node):
        self.generic_visit(node)
        tv = _const_truth(node.test)
        if tv is not None:
            return node.body if tv else node.orelse
        return node


class _Subst(ast.NodeTransformer):
    def __init__(self, mapping: Dict[str, ast.AST], rename: Dict[str, str]):
        self.mapping = mapping
        self.rename = rename

    def visit_Name(self, node):
        if node.id in self.mapping and isinstance(node.ctx, ast.Load):
            return ast.copy_location(copy.deepcopy(self.mapping[node.id]), node)
        if node.id in self.rename:
            return ast.copy_location(ast.Name(id=self.rename[node.id], ctx=node.ctx), node)
        return node

    def _nested(self, node, params):
        """a nested scope: names it binds itself shadow the helper's"""
        own = set(params) | {n.id for n in ast.walk(node) if isinstance(n, ast.Name) and isinstance(n.ctx, ast.Store)}
        inner = _Subst({k: v for k, v in self.mapping.items() if k not in own}, {k: v for k, v in self.rename.items() if k not in params})
        return inner

    def visit_FunctionDef(self, node):
        a = node.args
        params = [p.arg for p in a.posonlyargs + a.args + a.kwonlyargs] + ([a.vararg.arg] if a.vararg else []) + ([a.kwarg.arg] if a.kwarg else [])
        node.decorator_list = [self.visit(d) for d in node.decorator_list]
        a.defaults = [self.visit(d) for d in a.defaults]
        a.kw_defaults = [self.visit(d) if d is not None else None for d in a.kw_defaults]
        inner = self._nested(node, params)
        node.body = [inner.visit(b) for b in node.body]
        if node.name in self.rename:
            node.name = self.rename[node.name]
        return node

    def visit_Lambda(self, node):
        a = node.args
        params = [p.arg for p in a.posonlyargs + a.args + a.kwonlyargs] + ([a.vararg.arg] if a.vararg else []) + ([a.kwarg.arg] if a.kwarg else [])
        a.defaults = [self.visit(d) for d in a.defaults]
        node.body = self._nested(node, params).visit(node.body)
        return node


def _bind(fn, call: ast.Call, is_method: bool, recv: Optional[ast.AST]):
    """parameter name -> argument expression (defaults filled in); None if the call cannot be bound statically"""
    ps = _params(fn)
    static = any(ast.unparse(d) == "staticmethod" for d in fn.decorator_list)
    out: Dict[str, ast.AST] = {}
    if is_method and not static and ps:
        out[ps[0].arg] = recv if recv is not None else ast.Name(id="self", ctx=ast.Load())
        ps = ps[1:]
    dstar = [k.value for k in call.keywords if k.arg is None]
    if any(isinstance(a, ast.Starred) for a in call.args) or len(dstar) > 1:
        return None
    if dstar and not isinstance(dstar[0], (ast.Name, ast.Attribute)):
        return None
    if len(call.args) > len(ps):
        return None
    for p_, a in zip(ps, call.args):
        out[p_.arg] = a
    names = [p_.arg for p_ in ps] + [p_.arg for p_ in fn.args.kwonlyargs]
    for k in call.keywords:
        if k.arg is None:
            continue
        if k.arg not in names or k.arg in out:
            return None
        out[k.arg] = k.value
    if dstar:
        # f(.., **opts): a call that works binds every remaining parameter to opts[name] if present, else to its default
        dflt = dict(zip([p_.arg for p_ in (list(fn.args.posonlyargs) + list(fn.args.args))][::-1], list(fn.args.defaults)[::-1]))
        for p_, d in zip(fn.args.kwonlyargs, fn.args.kw_defaults):
            if d is not None:
                dflt[p_.arg] = d
        for nm in names:
            if nm not in out:
                if nm not in dflt:
                    return None
                out[nm] = ast.Call(func=ast.Attribute(value=copy.deepcopy(dstar[0]), attr="get", ctx=ast.Load()),
                                   args=[ast.Constant(value=nm), copy.deepcopy(dflt[nm])], keywords=[])
    defaults = dict(zip([p_.arg for p_ in (list(fn.args.posonlyargs) + list(fn.args.args))][::-1], list(fn.args.defaults)[::-1]))
    for p_, d in zip(fn.args.kwonlyargs, fn.args.kw_defaults):
        if d is not None:
            defaults[p_.arg] = d
    for nm in names:
        if nm not in out:
            if nm in defaults:
                out[nm] = defaults[nm]
            else:
                return None
    return out


def _stores(fn) -> Set[str]:
    """names bound in fn's own scope (the names of nested functions included, their locals not)"""
    out = set()
    for n in _own_walk(fn):
        if isinstance(n, ast.Name) and isinstance(n.ctx, (ast.Store, ast.Del)):
            out.add(n.id)
        elif isinstance(n, ast.ExceptHandler) and n.name:
            out.add(n.name)
        elif n is not fn and isinstance(n, _FUNCS):
            out.add(n.name)
    return out


def _captured_params(fn) -> Set[str]:
    """parameters of fn that a nested function / lambda reads (late-bound in the closure)"""
    ps = {a.arg for a in _params(fn) + list(fn.args.kwonlyargs)}
    out = set()
    for d in ast.walk(fn):
        if d is not fn and isinstance(d, _FUNCS + (ast.Lambda,)):
            for n in ast.walk(d):
                if isinstance(n, ast.Name) and n.id in ps:
                    out.add(n.id)
    return out


def _names(node) -> Set[str]:
    out = {n.id for n in ast.walk(node) if isinstance(n, ast.Name)}
    out |= {a.arg for n in ast.walk(node) if isinstance(n, _FUNCS + (ast.Lambda,)) for a in n.args.args}
    return out


def _pure(e) -> bool:
    return isinstance(e, (ast.Name, ast.Constant)) or (isinstance(e, ast.Attribute) and _pure(e.value)) \
        or (isinstance(e, ast.Tuple) and all(_pure(x) for x in e.elts))


def _mentions(stmts, name) -> int:
    return sum(1 for st in stmts for n in ast.walk(st) if (isinstance(n, ast.Name) and n.id == name) or (isinstance(n, _FUNCS) and n.name == name))


def _sub_blocks(st):
    for fld in ("body", "orelse", "finalbody"):
        b = getattr(st, fld, None)
        if isinstance(b, list) and b and isinstance(b[0], ast.stmt):
            yield fld, b
    for h in getattr(st, "handlers", []) or []:
        yield None, h.body


def _tidy_inlined(blk, locals_):
    """tidy the statements an inlined helper left behind, so that the caller reads as it would had the code been written in place:
      * `a, b = x, y` (the helper's returned tuple meeting the caller's unpacking) becomes `a = x; b = y`;
      * `_ = <name / attribute / constant>` is dropped;
      * `t = s`, s a local of the helper that lives only in the statements before the copy (same block) and t not mentioned there:
        s is renamed to t and the copy dropped (copy coalescing);
      * `s = None` initialisers of helper locals that are never read, or that are unconditionally re-assigned before any read, go.
    Everything here is value-preserving on the inlined block; it only touches names the inliner introduced."""
    def split(block):
        out = []
        for st in block:
            for fld, b in list(_sub_blocks(st)):
                nb = split(b)
                if fld is not None:
                    setattr(st, fld, nb or ([ast.Pass()] if fld == "body" else []))
                else:
                    b[:] = nb or [ast.Pass()]
            if isinstance(st, ast.Assign) and len(st.targets) == 1 and isinstance(st.targets[0], ast.Tuple) and isinstance(st.value, ast.Tuple) \
                    and len(st.targets[0].elts) == len(st.value.elts) \
                    and not any(isinstance(e, ast.Starred) for e in st.targets[0].elts + st.value.elts):
                tnames = {n.id for t in st.targets[0].elts for n in ast.walk(t) if isinstance(n, ast.Name)}
                vnames = {n.id for v in st.value.elts for n in ast.walk(v) if isinstance(n, ast.Name)}
                if not (tnames - {"_"}) & vnames:
                    for t, v in zip(st.targets[0].elts, st.value.elts):
                        out.append(ast.copy_location(ast.Assign(targets=[t], value=v), st))
                    continue
            out.append(st)
        return out

    blk = split(blk)

    def drop_underscore(block):
        out = []
        for st in block:
            for fld, b in list(_sub_blocks(st)):
                nb = drop_underscore(b)
                if fld is not None:
                    setattr(st, fld, nb or ([ast.Pass()] if fld == "body" else []))
                else:
                    b[:] = nb or [ast.Pass()]
            if isinstance(st, ast.Assign) and len(st.targets) == 1 and isinstance(st.targets[0], ast.Name) and st.targets[0].id == "_" and _pure(st.value):
                continue
            out.append(st)
        return out

    blk = drop_underscore(blk)

    def coalesce(block):
        changed = True
        while changed:
            changed = False
            for k, st in enumerate(block):
                if isinstance(st, ast.Assign) and len(st.targets) == 1 and isinstance(st.targets[0], ast.Name) and isinstance(st.value, ast.Name) \
                        and st.value.id in locals_ and st.targets[0].id != st.value.id:
                    s_, t_ = st.value.id, st.targets[0].id
                    before = block[:k]
                    if _mentions(before, t_) == 0 and _mentions(before, s_) == _mentions(blk, s_) - 1 and _mentions(before, s_) > 0:
                        for b in before:
                            for n in ast.walk(b):
                                if isinstance(n, ast.Name) and n.id == s_:
                                    n.id = t_
                                elif isinstance(n, _FUNCS) and n.name == s_:
                                    n.name = t_
                        del block[k]
                        changed = True
                        break
        for st in block:
            for _fld, b in _sub_blocks(st):
                coalesce(b)

    coalesce(blk)

    def linear(block):
        for st in block:
            yield st
            if isinstance(st, ast.With):
                yield from linear(st.body)

    def dead_inits(block):
        k = 0
        while k < len(block):
            st = block[k]
            if isinstance(st, ast.Assign) and len(st.targets) == 1 and isinstance(st.targets[0], ast.Name) and isinstance(st.value, ast.Constant) \
                    and st.value.value is None:
                nm = st.targets[0].id
                if _mentions(blk, nm) == 1 and nm in locals_:
                    del block[k]
                    continue
                nxt = next((x for x in linear(block[k + 1:]) if not isinstance(x, ast.With) and _mentions([x], nm)
                            or isinstance(x, ast.With) and any(_mentions([wi.context_expr], nm) for wi in x.items)), None)
                if nxt is not None and isinstance(nxt, ast.Assign) and not _mentions([nxt.value], nm) \
                        and any(isinstance(n, ast.Name) and n.id == nm for t in nxt.targets for n in ([t] if isinstance(t, ast.Name) else getattr(t, "elts", []))) \
                        and (nm in locals_ or _mentions(block[:k], nm) == 0):
                    del block[k]
                    continue
            k += 1
        for st in block:
            for _fld, b in _sub_blocks(st):
                dead_inits(b)

    dead_inits(blk)
    return blk or [ast.Pass()]


class Inliner:
    def __init__(self, tree: ast.Module, known: Set[str]):
        self.tree = tree
        self.known = known
        self.counter = 0
        self._single_binding: Dict[str, int] = {}
        self._attr_stores: Set[str] = set()
        self.inlined: List[Tuple[str, str]] = []            # (caller, helper)

    # ------------------------------------------------------------------ discovery
    def helpers(self):
        """{('' | class name, function name): (node, is_method, owner body list)} of the inlinable new helpers"""
        out = {}
        for s in self.tree.body:
            if isinstance(s, _FUNCS) and s.name not in self.known and _inlinable(s, False) is None:
                out[("", s.name)] = (s, False, self.tree.body)
            elif isinstance(s, ast.ClassDef):
                for m in s.body:
                    if isinstance(m, _FUNCS) and ("%s.%s" % (s.name, m.name)) not in self.known and _inlinable(m, True) is None \
                            and not (m.name.startswith("__") and m.name.endswith("__")):
                        out[(s.name, m.name)] = (m, True, s.body)
        return out

    def _match(self, call: ast.Call, cls: str, helpers):
        """(key, receiver) if `call` calls one of the helpers from inside class `cls` ('' at module level)"""
        f = call.func
        if isinstance(f, ast.Name) and ("", f.id) in helpers:
            return ("", f.id), None
        if isinstance(f, ast.Attribute) and isinstance(f.value, ast.Name):
            if f.value.id in ("self", "cls") and cls and (cls, f.attr) in helpers:
                return (cls, f.attr), f.value
            if (f.value.id, f.attr) in helpers:
                static = any(ast.unparse(d) == "staticmethod" for d in helpers[(f.value.id, f.attr)][0].decorator_list)
                return ((f.value.id, f.attr), None) if static else None
        return None

    # ------------------------------------------------------------------ inlining
    def _expr_body(self, fn) -> Optional[ast.AST]:
        b = _body_without_doc(fn)
        if len(b) == 1 and isinstance(b[0], ast.Return) and b[0].value is not None:
            return b[0].value
        return None

    def _inline_stmt_body(self, fn, binding, caller_names: Set[str], target_stmt_builder):
        """statements of fn with parameters bound, locals renamed away from caller names; the final `return E` is replaced by
        target_stmt_builder(E)"""
        pre = []
        mapping = {}
        cap = _captured_params(fn)
        for p_ in cap:
            a = binding.get(p_)
            # a closure of the helper sees the parameter as it was at the call; inlined, it sees the caller's variable: the same thing
            # only if that variable is bound exactly once in the caller (or the argument is a constant)
            if isinstance(a, ast.Constant):
                continue
            root_ = a
            while isinstance(root_, ast.Attribute):
                root_ = root_.value
            # a name bound once, or an attribute chain on such a name that the caller never re-assigns (`ctx.param_sep`)
            ok_ = isinstance(root_, ast.Name) and self._single_binding.get(root_.id, 0) == 1 and \
                (isinstance(a, ast.Name) or ast.unparse(a) not in self._attr_stores)
            if not ok_ or p_ in _stores(fn):
                return None
        for p_, a in binding.items():
            if isinstance(a, _SIMPLE_ARG) and not (p_ in _stores(fn)):
                mapping[p_] = a
            else:
                self.counter += 1
                tmp = "%s_inl%d" % (p_, self.counter)
                pre.append(ast.Assign(targets=[ast.Name(id=tmp, ctx=ast.Store())], value=copy.deepcopy(a)))
                mapping[p_] = ast.Name(id=tmp, ctx=ast.Load())
        rename = {}
        for nm in sorted(_stores(fn) - set(binding)):
            if nm in caller_names:
                self.counter += 1
                rename[nm] = "%s_inl%d" % (nm, self.counter)
        # parameters that the helper re-binds are locals of the inlined block
        for p_ in binding:
            if p_ in _stores(fn):
                rename[p_] = mapping[p_].id
        sub = _Subst({k: v for k, v in mapping.items() if k not in rename}, rename)
        body = [_FoldIfExp().visit(sub.visit(copy.deepcopy(st))) for st in _body_without_doc(fn)]
        body = _prune_dead(_fold_constant_tests(body))
        if not _tail_returns_only(body):
            return None                  # this call site cannot be inlined value-preservingly
        has_ret = any(_has_own_return(st) for st in body)
        locals_ = set(rename.values()) | (_stores(fn) - set(binding) - set(rename))
        if has_ret:
            body = _eliminate_returns(body, target_stmt_builder)
            return _tidy_inlined(pre + body, locals_ | {t.targets[0].id for t in pre})
        tail = target_stmt_builder(ast.Constant(value=None))
        # a helper without a return value called as a statement leaves nothing behind
        return pre + body + ([] if isinstance(tail, ast.Expr) else [tail])

    def run(self):
        for _round in range(3):
            helpers = self.helpers()
            if not helpers:
                return
            did = False
            remaining_calls: Dict[Tuple[str, str], int] = {k: 0 for k in helpers}

            def process_function(fn, cls):
                nonlocal did
                if (cls, fn.name) in helpers and False:
                    return
                caller_names = _names(fn)
                self._single_binding = {}
                self._attr_stores = {ast.unparse(n_) for n_ in ast.walk(fn) if isinstance(n_, ast.Attribute) and isinstance(n_.ctx, (ast.Store, ast.Del))}
                for a_ in ast.walk(fn.args):
                    if isinstance(a_, ast.arg):
                        self._single_binding[a_.arg] = self._single_binding.get(a_.arg, 0) + 1
                for n_ in _own_walk(fn):
                    if isinstance(n_, ast.Name) and isinstance(n_.ctx, (ast.Store, ast.Del)):
                        self._single_binding[n_.id] = self._single_binding.get(n_.id, 0) + 1
                    elif n_ is not fn and isinstance(n_, _FUNCS):
                        self._single_binding[n_.name] = self._single_binding.get(n_.name, 0) + 1

                def do_block(stmts):
                    nonlocal did
                    out = []
                    for st in stmts:
                        for fld in ("body", "orelse", "finalbody"):
                            b = getattr(st, fld, None)
                            if isinstance(b, list) and b and isinstance(b[0], ast.stmt) and not isinstance(st, _FUNCS + (ast.ClassDef,)):
                                setattr(st, fld, do_block(b))
                        for h in getattr(st, "handlers", []) or []:
                            h.body = do_block(h.body)
                        if isinstance(st, _FUNCS + (ast.ClassDef,)):
                            out.append(st)
                            continue
                        # 0. `x = A if t else B` / `return A if t else B` with a helper call in an arm becomes the if statement, so that the
                        #    call is a statement's whole value (or first-evaluated) and the steps below apply to it
                        v0 = getattr(st, "value", None)
                        if isinstance(v0, ast.IfExp) and (isinstance(st, ast.Return) or (isinstance(st, ast.Assign) and len(st.targets) == 1 and isinstance(st.targets[0], ast.Name))) \
                                and any(isinstance(c_, ast.Call) and self._match(c_, cls, helpers) is not None and self._match(c_, cls, helpers)[0] != (cls, fn.name)
                                        for arm_ in (v0.body, v0.orelse) for c_ in ast.walk(arm_)):
                            def mk(val_):
                                new_ = ast.Return(value=val_) if isinstance(st, ast.Return) else ast.Assign(targets=[copy.deepcopy(st.targets[0])], value=val_)
                                return ast.copy_location(new_, st)
                            ifst = ast.copy_location(ast.If(test=v0.test, body=[mk(v0.body)], orelse=[mk(v0.orelse)]), st)
                            ast.fix_missing_locations(ifst)
                            did = True
                            out.extend(do_block([ifst]))
                            continue
                        # 1. expression-bodied helpers anywhere in the statement's own expressions
                        st = self._subst_expr_helpers(st, cls, helpers)
                        # 1b. a statement-bodied helper called inside a larger expression that is evaluated unconditionally and first
                        #     (`if _check(x) == 0:`, `y = f(_helper(x))`) is hoisted into a temporary, which step 2 then inlines
                        hoisted = self._hoist_helper_calls(st, cls, helpers, (cls, fn.name))
                        if hoisted:
                            out.extend(do_block(hoisted))
                        # 2. statement-bodied helper as the whole value of the statement
                        val = getattr(st, "value", None) if isinstance(st, (ast.Assign, ast.AnnAssign, ast.AugAssign, ast.Return, ast.Expr)) else None
                        m = self._match(val, cls, helpers) if isinstance(val, ast.Call) else None
                        if m is not None and (cls, fn.name) != m[0]:
                            key, recv = m
                            hfn, is_m, _ = helpers[key]
                            binding = _bind(hfn, val, is_m, recv)
                            if binding is not None and self._expr_body(hfn) is None:
                                def build(e, st=st):
                                    new = copy.copy(st)
                                    if isinstance(st, ast.Expr):
                                        return ast.copy_location(ast.Expr(value=e), st)
                                    new.value = e
                                    return new
                                blk = self._inline_stmt_body(hfn, binding, caller_names, build)
                                if blk is None:
                                    out.append(st)
                                    continue
                                for b_ in blk:
                                    for sub_ in ast.walk(b_):
                                        if hasattr(sub_, "lineno") or isinstance(sub_, (ast.stmt, ast.expr)):
                                            sub_.lineno, sub_.col_offset = st.lineno, st.col_offset
                                            sub_.end_lineno, sub_.end_col_offset = getattr(st, "end_lineno", st.lineno), getattr(st, "end_col_offset", st.col_offset)
                                out.extend(blk)
                                for b_ in blk:                    # a second instance of the helper gets fresh local names
                                    caller_names.update(_names(b_))
                                self.inlined.append((fn.name, hfn.name))
                                did = True
                                continue
                        # 3. a helper made of tests and returns only, called where no statement can be put (inside a comprehension, a lambda, a
                        #    conditionally evaluated operand): substituted as a conditional expression
                        self._did_guard = False
                        st = self._subst_expr_helpers(st, cls, helpers, guard_form=True)
                        if self._did_guard:
                            did = True
                        out.append(st)
                    return out
                fn.body = do_block(fn.body)

            for s in self.tree.body:
                if isinstance(s, _FUNCS):
                    process_function(s, "")
                elif isinstance(s, ast.ClassDef):
                    for m_ in s.body:
                        if isinstance(m_, _FUNCS):
                            process_function(m_, s.name)
            # nested functions of processed functions are reached through do_block? they are skipped above: handle them as well
            for outer in [n for n in ast.walk(self.tree) if isinstance(n, _FUNCS)]:
                for n in ast.walk(outer):
                    if n is not outer and isinstance(n, _FUNCS) and not getattr(n, "_inl_done", False):
                        n._inl_done = True
                        cls = ""
                        process_function(n, cls)
            # drop helpers that are no longer referenced
            for key, (hfn, is_m, owner) in helpers.items():
                refs = 0
                for n in ast.walk(self.tree):
                    if isinstance(n, ast.Name) and n.id == hfn.name and not is_m:
                        refs += 1
                    elif isinstance(n, ast.Attribute) and n.attr == hfn.name and is_m:
                        refs += 1
                if refs == 0 and hfn in owner:
                    owner.remove(hfn)
            if not did:
                return

    def _hoist_helper_calls(self, st, cls, helpers, me):
        """[tmp = helper(..)] statements for the statement-bodied helper calls of `st` that can be evaluated before the statement
        without changing anything: the call is the FIRST thing the statement's expression evaluates (leftmost-innermost position, not
        under and/or right operands, conditional arms, lambdas or comprehensions).  The call is replaced by the temporary in place."""
        exprs = []
        if isinstance(st, ast.If):
            exprs = [("test", st.test)]
        elif isinstance(st, (ast.Assign, ast.AugAssign, ast.AnnAssign, ast.Return, ast.Expr)) and getattr(st, "value", None) is not None:
            exprs = [("value", st.value)]
        out = []
        for fld, e in exprs:
            if isinstance(e, ast.Call) and self._match(e, cls, helpers) is not None:
                continue                   # the whole value: step 2 handles it
            # walk down the first-evaluated spine
            node, parent, pfld, pidx = e, None, None, None
            while True:
                if isinstance(node, ast.Call):
                    m = self._match(node, cls, helpers)
                    if m is not None and m[0] != me and self._expr_body(helpers[m[0]][0]) is None and parent is not None:
                        self.counter += 1
                        tmp = "__h%d" % self.counter
                        asg = ast.copy_location(ast.Assign(targets=[ast.Name(id=tmp, ctx=ast.Store())], value=node), st)
                        repl = ast.copy_location(ast.Name(id=tmp, ctx=ast.Load()), node)
                        if pidx is None:
                            setattr(parent, pfld, repl)
                        else:
                            getattr(parent, pfld)[pidx] = repl
                        out.append(ast.fix_missing_locations(asg))
                        break
                    # first evaluated sub-expression of a call: the callee expression, then the first argument
                    if isinstance(node.func, ast.Attribute):
                        parent, pfld, pidx, node = node.func, "value", None, node.func.value
                        continue
                    if node.args and not isinstance(node.args[0], ast.Starred):
                        parent, pfld, pidx, node = node, "args", 0, node.args[0]
                        continue
                    break
                if isinstance(node, ast.Compare):
                    parent, pfld, pidx, node = node, "left", None, node.left
                    continue
                if isinstance(node, ast.BinOp):
                    parent, pfld, pidx, node = node, "left", None, node.left
                    continue
                if isinstance(node, ast.UnaryOp):
                    parent, pfld, pidx, node = node, "operand", None, node.operand
                    continue
                if isinstance(node, ast.BoolOp):
                    parent, pfld, pidx, node = node, "values", 0, node.values[0]
                    continue
                if isinstance(node, (ast.Attribute, ast.Subscript)):
                    parent, pfld, pidx, node = node, "value", None, node.value
                    continue
                if isinstance(node, (ast.Tuple, ast.List)) and node.elts and not isinstance(node.elts[0], ast.Starred):
                    parent, pfld, pidx, node = node, "elts", 0, node.elts[0]
                    continue
                break
        return out

    def _guard_expr(self, block) -> Optional[ast.AST]:
        """the value of a helper whose body is nothing but tests and returns (`if c: return A` / `return B`), as a conditional expression"""
        if not block:
            return None
        st = block[0]
        if isinstance(st, ast.Return) and st.value is not None:
            return st.value
        if isinstance(st, ast.If):
            a = self._guard_expr(st.body)
            b = self._guard_expr(st.orelse) if st.orelse else self._guard_expr(block[1:])
            if a is None or b is None or (st.orelse and len(block) > 1):
                return None
            return ast.copy_location(ast.IfExp(test=st.test, body=a, orelse=b), st)
        return None

    def _subst_expr_helpers(self, st, cls, helpers, guard_form=False):
        inl = self

        class T(ast.NodeTransformer):
            def visit_FunctionDef(self, node):
                return node
            visit_AsyncFunctionDef = visit_FunctionDef
            visit_ClassDef = visit_FunctionDef

            def visit_Call(self, node):
                self.generic_visit(node)
                m = inl._match(node, cls, helpers)
                if m is None:
                    return node
                key, recv = m
                hfn, is_m, _ = helpers[key]
                e = inl._expr_body(hfn)
                if e is None and guard_form:
                    e = inl._guard_expr(_body_without_doc(hfn))
                    if e is not None:
                        inl._did_guard = True
                if e is None:
                    return node
                binding = _bind(hfn, node, is_m, recv)
                if binding is None:
                    return node
                new = _Subst(binding, {}).visit(copy.deepcopy(e))
                inl.inlined.append(("<expr>", hfn.name))
                for sub_ in ast.walk(new):            # the inlined expression lives at the call site
                    if hasattr(sub_, "lineno"):
                        sub_.lineno, sub_.col_offset = node.lineno, node.col_offset
                        sub_.end_lineno, sub_.end_col_offset = getattr(node, "end_lineno", node.lineno), getattr(node, "end_col_offset", node.col_offset)
                return ast.copy_location(new, node)
        # only the statement's own expressions, not nested statements
        for fld, val in list(ast.iter_fields(st)):
            if isinstance(val, ast.expr):
                setattr(st, fld, T().visit(val))
            elif isinstance(val, list) and val and all(isinstance(v, ast.expr) for v in val):
                setattr(st, fld, [T().visit(v) for v in val])
            elif isinstance(val, list) and val and all(isinstance(v, ast.withitem) for v in val):
                for wi in val:
                    wi.context_expr = T().visit(wi.context_expr)
        return st


_PURE_TENSOR_METHODS = {"reshape", "view", "transpose", "conj", "unsqueeze", "squeeze", "flatten", "contiguous", "t", "permute", "size", "dim", "numel"}


def _pure_before(expr: ast.AST, use: ast.Name) -> bool:
    """everything `expr` evaluates before it reads `use` is free of effects and cannot be affected by a call: names, attribute loads,
    constants and the shape methods of tensors.  (Moving a call from a preceding statement to that position then changes nothing.)"""
    done = []

    def pure(e) -> bool:
        if isinstance(e, (ast.Name, ast.Constant)):
            return True
        if isinstance(e, ast.Attribute):
            return pure(e.value)
        if isinstance(e, ast.UnaryOp):
            return pure(e.operand)
        if isinstance(e, ast.Call) and isinstance(e.func, ast.Attribute) and e.func.attr in _PURE_TENSOR_METHODS and not e.keywords:
            return pure(e.func.value) and all(pure(a) for a in e.args)
        if isinstance(e, (ast.Tuple, ast.List)):
            return all(pure(x) for x in e.elts)
        return False

    def walk(e) -> Optional[bool]:
        """evaluation-order walk; True when `use` is reached with only pure things evaluated before, False when something impure precedes"""
        if e is use:
            return True
        if isinstance(e, ast.Call):
            parts = [e.func] + list(e.args) + [k.value for k in e.keywords]
        elif isinstance(e, ast.Attribute):
            parts = [e.value]
        elif isinstance(e, ast.Subscript):
            parts = [e.value, e.slice]
        elif isinstance(e, ast.BinOp):
            parts = [e.left, e.right]
        elif isinstance(e, ast.UnaryOp):
            parts = [e.operand]
        elif isinstance(e, (ast.Tuple, ast.List)):
            parts = list(e.elts)
        else:
            return None if not any(n_ is use for n_ in ast.walk(e)) else False
        for p_ in parts:
            if any(n_ is use for n_ in ast.walk(p_)):
                return walk(p_)
            if not pure(p_) and not (isinstance(p_, ast.Attribute) and pure(p_)):
                return False
        return None
    return walk(expr) is True


def _inline_local_predicates(tree: ast.Module, ref_locals: Optional[Dict[str, Set[str]]] = None) -> int:
    """A nested function with the body `return <expr>` (or a `name = lambda ..: <expr>`), bound once in its enclosing function and
    capturing only names that are bound once there, is substituted at its direct call sites `name(args)` in that function; the
    definition goes when no other reference is left.  (`def differentiable(t): return isinstance(t, Tensor) and t.requires_grad`)"""
    n_done = 0
    for outer in [n for n in ast.walk(tree) if isinstance(n, _FUNCS)]:
        binds: Dict[str, int] = {}
        for a_ in ast.walk(outer.args):
            if isinstance(a_, ast.arg):
                binds[a_.arg] = binds.get(a_.arg, 0) + 1
        for n_ in _own_walk(outer):
            if isinstance(n_, ast.Name) and isinstance(n_.ctx, (ast.Store, ast.Del)):
                binds[n_.id] = binds.get(n_.id, 0) + 1
            elif n_ is not outer and isinstance(n_, _FUNCS):
                binds[n_.name] = binds.get(n_.name, 0) + 1
        cands = {}

        def _own_stmts(block):
            # the statements of the function itself, also inside with / if / try / loops (a closure is often defined inside a `with`)
            for st_ in block:
                yield st_, block
                if isinstance(st_, _FUNCS + (ast.ClassDef,)):
                    continue
                for fld_ in ("body", "orelse", "finalbody"):
                    b_ = getattr(st_, fld_, None)
                    if isinstance(b_, list) and b_ and isinstance(b_[0], ast.stmt):
                        yield from _own_stmts(b_)
                for h_ in getattr(st_, "handlers", []) or []:
                    yield from _own_stmts(h_.body)
        holder = {}
        for st, blk_ in _own_stmts(outer.body):
            holder[id(st)] = blk_
            if isinstance(st, ast.FunctionDef) and not st.decorator_list and not st.args.vararg and not st.args.kwarg and not st.args.kwonlyargs \
                    and not st.args.defaults:
                body = _body_without_doc(st)
                if len(body) == 1 and isinstance(body[0], ast.Return) and body[0].value is not None:
                    cands[st.name] = ([a.arg for a in st.args.args], body[0].value, st)
                elif len(body) == 2 and isinstance(body[0], ast.Assign) and len(body[0].targets) == 1 and isinstance(body[0].targets[0], ast.Name) \
                        and isinstance(body[1], ast.Return) and body[1].value is not None:
                    # `tmp = E; return g(tmp)` with tmp read once, as the first thing the return evaluates: the value is g(E)
                    tmp = body[0].targets[0].id
                    reads = [n_ for n_ in ast.walk(body[1].value) if isinstance(n_, ast.Name) and n_.id == tmp]
                    first = body[1].value
                    while isinstance(first, (ast.Call, ast.Attribute, ast.Subscript)):
                        first = first.func if isinstance(first, ast.Call) else first.value
                    if len(reads) == 1 and (first is reads[0] or _pure_before(body[1].value, reads[0])) and tmp not in [a.arg for a in st.args.args]:
                        merged = _Subst({tmp: body[0].value}, {}).visit(copy.deepcopy(body[1].value))
                        cands[st.name] = ([a.arg for a in st.args.args], ast.fix_missing_locations(ast.copy_location(merged, body[1].value)), st)
            elif isinstance(st, ast.Assign) and len(st.targets) == 1 and isinstance(st.targets[0], ast.Name) and isinstance(st.value, ast.Lambda) \
                    and not st.value.args.vararg and not st.value.args.kwarg and not st.value.args.kwonlyargs and not st.value.args.defaults:
                cands[st.targets[0].id] = ([a.arg for a in st.value.args.args], st.value.body, st)
        known_locals = None
        if ref_locals is not None:
            # only predicates the reference version of this function does not have (the rules know the reference's own closures)
            quals = [q for q in ref_locals if q == outer.name or q.endswith("." + outer.name)]
            known_locals = set().union(*[ref_locals[q] for q in quals]) if quals else None
        for name, (params, expr, defst) in cands.items():
            if binds.get(name, 0) != 1:
                continue
            if known_locals is None or name in known_locals:
                continue
            free = {n_.id for n_ in ast.walk(expr) if isinstance(n_, ast.Name)} - set(params)
            if any(binds.get(fv, 0) > 1 for fv in free) or name in free:
                continue
            if any(isinstance(n_, (ast.Lambda, ast.Yield, ast.YieldFrom, ast.Await, ast.NamedExpr)) for n_ in ast.walk(expr)):
                continue
            uses = {p_: sum(1 for n_ in ast.walk(expr) if isinstance(n_, ast.Name) and n_.id == p_) for p_ in params}

            class T(ast.NodeTransformer):
                def __init__(self):
                    self.count = 0

                def visit_FunctionDef(self, node):
                    return node if node is not outer and node is defst else self.generic_visit(node)

                def visit_Call(self, node):
                    self.generic_visit(node)
                    if isinstance(node.func, ast.Name) and node.func.id == name and not node.keywords and len(node.args) == len(params) \
                            and not any(isinstance(a, ast.Starred) for a in node.args):
                        if all(uses[p_] <= 1 or not any(isinstance(x, (ast.Call, ast.Await, ast.Yield)) for x in ast.walk(a)) for p_, a in zip(params, node.args)):
                            self.count += 1
                            new = _Subst(dict(zip(params, node.args)), {}).visit(copy.deepcopy(expr))
                            for sub_ in ast.walk(new):
                                if hasattr(sub_, "lineno"):
                                    sub_.lineno, sub_.col_offset = node.lineno, node.col_offset
                                    sub_.end_lineno, sub_.end_col_offset = getattr(node, "end_lineno", node.lineno), getattr(node, "end_col_offset", node.col_offset)
                            return ast.copy_location(new, node)
                    return node
            t = T()
            outer.body = [st if st is defst else t.visit(st) for st in outer.body]
            if t.count:
                n_done += t.count
                left = sum(1 for n_ in ast.walk(outer) if isinstance(n_, ast.Name) and n_.id == name and isinstance(n_.ctx, ast.Load))
                if left == 0:
                    blk_ = holder.get(id(defst), outer.body)
                    blk_[:] = [st for st in blk_ if st is not defst] or [ast.copy_location(ast.Pass(), defst)]
    return n_done


def _expand_star_tuples(tree: ast.Module) -> int:
    """`T = (a, b, g())` ... `f(*T, x)` with T a local bound once to a tuple display and used only as `*T` in calls  ->  `__sa = g()` ...
    `f(a, b, __sa, x)`.  Elements that are not constants or names bound once are evaluated once, where the tuple was built, into a
    temporary - exactly what building the tuple did.  Behaviour-preserving; it makes the call inlinable / layout rules applicable."""
    done = 0
    for fn in [n for n in ast.walk(tree) if isinstance(n, _FUNCS)]:
        binds: Dict[str, int] = {}
        for a_ in ast.walk(fn.args):
            if isinstance(a_, ast.arg):
                binds[a_.arg] = binds.get(a_.arg, 0) + 1
        for n_ in ast.walk(fn):
            if isinstance(n_, ast.Name) and isinstance(n_.ctx, (ast.Store, ast.Del)):
                binds[n_.id] = binds.get(n_.id, 0) + 1
            elif isinstance(n_, ast.arg) and n_ not in list(ast.walk(fn.args)):
                binds[n_.arg] = binds.get(n_.arg, 0) + 1
        for i, st in enumerate(list(fn.body)):
            if not (isinstance(st, ast.Assign) and len(st.targets) == 1 and isinstance(st.targets[0], ast.Name) and isinstance(st.value, ast.Tuple)
                    and st.value.elts and not any(isinstance(e, ast.Starred) for e in st.value.elts)):
                continue
            T = st.targets[0].id
            if binds.get(T, 0) != 1:
                continue
            uses = [n_ for n_ in ast.walk(fn) if isinstance(n_, ast.Name) and n_.id == T and n_ is not st.targets[0]]
            starred = [c for c in ast.walk(fn) if isinstance(c, ast.Call) for a in c.args if isinstance(a, ast.Starred) and isinstance(a.value, ast.Name) and a.value.id == T]
            nstar = sum(1 for c in ast.walk(fn) if isinstance(c, ast.Call) for a in c.args if isinstance(a, ast.Starred) and isinstance(a.value, ast.Name) and a.value.id == T)
            if not uses or len(uses) != nstar:
                continue
            # every use must come after the definition (in source order) - nested functions are called later
            if any(getattr(u, "lineno", 0) < st.lineno for u in uses):
                continue
            pre, names = [], []
            ok = True
            for k, e in enumerate(st.value.elts):
                if isinstance(e, ast.Constant):
                    names.append(e)
                elif isinstance(e, ast.Name) and binds.get(e.id, 0) == 1:
                    names.append(e)
                elif isinstance(e, ast.Name):
                    ok = False
                    break
                else:
                    tmp = "__sa%d_%d" % (st.lineno, k)
                    pre.append(ast.copy_location(ast.Assign(targets=[ast.Name(id=tmp, ctx=ast.Store())], value=e), st))
                    names.append(ast.Name(id=tmp, ctx=ast.Load()))
            if not ok:
                continue
            for c in starred:
                new_args = []
                for a in c.args:
                    if isinstance(a, ast.Starred) and isinstance(a.value, ast.Name) and a.value.id == T:
                        new_args.extend(ast.copy_location(copy.deepcopy(x), a) for x in names)
                    else:
                        new_args.append(a)
                c.args = new_args
            idx = fn.body.index(st)
            fn.body[idx:idx + 1] = pre or ([ast.copy_location(ast.Pass(), st)] if len(fn.body) == 1 else [])
            done += 1
    if done:
        ast.fix_missing_locations(tree)
    return done


def _fold_known_not_none(tree: ast.Module) -> int:
    """`x is None` / `x is not None` where x is a local bound exactly once, to a value that cannot be None (a tensor constructor, an
    arithmetic expression, a display, a non-None constant), and the test comes after the binding: folded to False / True, and conditionals
    on the folded constant are resolved.  (Typical after inlining a helper with an optional argument at a call site that passes a tensor.)"""
    n = 0
    for fn in [x for x in ast.walk(tree) if isinstance(x, _FUNCS)]:
        binds: Dict[str, List[ast.AST]] = {}
        params = {a.arg for a in ast.walk(fn.args) if isinstance(a, ast.arg)}
        for x in _own_walk(fn):
            if isinstance(x, ast.Name) and isinstance(x.ctx, (ast.Store, ast.Del)):
                binds.setdefault(x.id, []).append(x)
        known = {}
        for st in fn.body:
            if isinstance(st, ast.Assign) and len(st.targets) == 1 and isinstance(st.targets[0], ast.Name):
                nm = st.targets[0].id
                v = st.value
                notnone = (isinstance(v, ast.Call) and ast.unparse(v.func) in ("torch.tensor", "torch.zeros", "torch.ones", "torch.empty", "torch.eye", "torch.arange", "torch.linspace", "torch.full")) \
                    or isinstance(v, (ast.BinOp, ast.Tuple, ast.List, ast.Dict)) or (isinstance(v, ast.Constant) and v.value is not None)
                if notnone and len(binds.get(nm, [])) == 1 and nm not in params:
                    known[nm] = st.lineno

        class F(ast.NodeTransformer):
            def visit_FunctionDef(self, node):
                return node if node is not fn else self.generic_visit(node)
            visit_AsyncFunctionDef = visit_FunctionDef
            visit_Lambda = lambda self, node: node

            def visit_Compare(self, node):
                self.generic_visit(node)
                if len(node.ops) == 1 and isinstance(node.ops[0], (ast.Is, ast.IsNot)) and isinstance(node.left, ast.Name) and node.left.id in known \
                        and isinstance(node.comparators[0], ast.Constant) and node.comparators[0].value is None and getattr(node, "lineno", 0) > known[node.left.id]:
                    nonlocal n
                    n += 1
                    return ast.copy_location(ast.Constant(value=isinstance(node.ops[0], ast.IsNot)), node)
                return node
        if known:
            F().visit(fn)
            _FoldIfExp().visit(fn)
            fn.body = _fold_constant_tests(fn.body) or [ast.Pass()]
    if n:
        ast.fix_missing_locations(tree)
    return n


def inline_new_helpers(tree: ast.Module, known_functions: Set[str], ref_locals: Optional[Dict[str, Set[str]]] = None) -> List[Tuple[str, str]]:
    _expand_star_tuples(tree)
    inl = Inliner(tree, known_functions)
    inl.run()
    if _inline_local_predicates(tree, ref_locals):
        inl.inlined.append(("<local>", "<predicate>"))
    if inl.inlined:
        _fold_known_not_none(tree)
    ast.fix_missing_locations(tree)
    return inl.inlined
