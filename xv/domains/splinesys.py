"""Size-parametric band / stencil domain for the cubic-spline slope system  L k = R y.

`_get_spline_mat_inv` builds two (nr x nr) matrices from three diagonals each and then overwrites or updates a few
entries of the first and last rows, depending on the boundary condition.  This module interprets that code *without
choosing a size*: a sequence is a function  i -> normal form  in the atoms a[i] (inverse interval widths) with a
symbolic length (nr + const); a matrix is {diagonal offset: sequence} plus an ordered list of point updates of rows 0
and -1.  From it the generic interior row and the two boundary rows are read off as stencils and compared - up to a
common non-zero scaling of [L | R] - with the conditions *derived from the Hermite polynomial* that the evaluation
formulas implement (C2 continuity at interior knots; natural / clamped / not-a-knot / periodic at the ends).

Nothing is executed, unrolled or sampled.  Unknown constructs raise `Uninterpretable` (the rule is then undecided).
"""
from __future__ import annotations
import ast
import copy
from typing import Dict, List, Optional, Tuple, Callable, Any
from .poly import Rat, Poly, C, S, Uninterpretable, F
from ..model import Model, AnalysisError, own_nodes, norm_stmt

I1D = "xitorch/_impls/interpolate/interp_1d.py"
NR = S("nr")


def _const_of(r: Rat) -> Optional[int]:
    if isinstance(r, Rat) and not r.symbols() and r.d == Poly.const(1):
        k = r.n.t.get((), F(0))
        if k.denominator == 1:
            return int(k)
    return None


def _atom_a(idx: Rat) -> Rat:
    return S("a[%s]" % repr(idx).replace(" ", ""))


def _atom_index(sym: str) -> Optional[str]:
    return sym[2:-1] if sym.startswith("a[") and sym.endswith("]") else None


class Seq:
    def __init__(self, fn: Callable[[Rat], Rat], length: Rat, zero: bool = False, is_base: bool = False):
        self.fn, self.length, self.zero, self.is_base = fn, length, zero, is_base


class Mat:
    def __init__(self):
        self.bands: Dict[int, Seq] = {}
        self.rowops: List[Tuple[int, Any, str, Rat, ast.AST]] = []   # (row, col | ':', op, value, stmt)

    def clone(self):
        m = Mat()
        m.bands = dict(self.bands)
        m.rowops = list(self.rowops)
        return m


class DiagView:
    def __init__(self, mat_name: str, offset: int):
        self.mat_name, self.offset = mat_name, offset


class Opaque:
    def __init__(self, d=""):
        self.d = d


def _const_int(e: ast.AST) -> Optional[int]:
    if isinstance(e, ast.Constant) and isinstance(e.value, int) and not isinstance(e.value, bool):
        return e.value
    if isinstance(e, ast.UnaryOp) and isinstance(e.op, ast.USub) and isinstance(e.operand, ast.Constant) and isinstance(e.operand.value, int):
        return -e.operand.value
    return None


class SplineSysInterp:
    def __init__(self, fi, source: str, nr: Optional[Rat] = None):
        self.fi = fi
        self.source = source
        self.NR = nr if nr is not None else NR
        self.env: Dict[str, Any] = {}
        self.mats: Dict[str, Mat] = {}
        self.solve: Optional[Tuple[str, str]] = None
        self.ret_is_solve = False
        xp = fi.params()[0]
        self.env[xp] = Seq(lambda i: S("X[%s]" % repr(i).replace(" ", "")), self.NR)
        self.xp = xp
        self.bcp = fi.params()[1]

    # ---------------------------------------------------------------- expressions
    def last_index(self, sl) -> ast.AST:
        """the subscript must be `[..., <something>]` (or a plain index for 1-D): return the last component"""
        if isinstance(sl, ast.Tuple):
            if not all(isinstance(e, ast.Constant) and e.value is Ellipsis for e in sl.elts[:-1]) or len(sl.elts) != 2:
                raise Uninterpretable("subscript %s" % ast.unparse(sl))
            return sl.elts[-1]
        return sl

    def ev(self, e: ast.AST):
        if isinstance(e, ast.Constant):
            if isinstance(e.value, (int, float)) and not isinstance(e.value, bool):
                from .exact import fold
                return C(fold(e, self.source))
            return Opaque("const")
        if isinstance(e, ast.Name):
            if e.id in self.env:
                return self.env[e.id]
            raise Uninterpretable("unbound name %s" % e.id)
        if isinstance(e, ast.UnaryOp) and isinstance(e.op, ast.USub):
            v = self.ev(e.operand)
            if isinstance(v, Seq):
                return Seq(lambda i, v=v: -v.fn(i), v.length, v.zero)
            if isinstance(v, Rat):
                return -v
            raise Uninterpretable("negation of %r" % (v,))
        if isinstance(e, ast.BinOp):
            if isinstance(e.op, ast.Pow):
                a = self.ev(e.left)
                k = _const_int(e.right)
                if k is None or not (0 <= k <= 6):
                    raise Uninterpretable("power %s" % ast.unparse(e))
                if isinstance(a, Rat):
                    return a ** k
                if isinstance(a, Seq):
                    return Seq(lambda i, a=a: a.fn(i) ** k, a.length)
                raise Uninterpretable("power of %r" % (a,))
            a, b = self.ev(e.left), self.ev(e.right)
            ops = {ast.Add: lambda x, y: x + y, ast.Sub: lambda x, y: x - y, ast.Mult: lambda x, y: x * y, ast.Div: lambda x, y: x / y}
            op = ops.get(type(e.op))
            if op is None:
                raise Uninterpretable("operator %s" % type(e.op).__name__)
            if isinstance(a, Rat) and isinstance(b, Rat):
                return op(a, b)
            if isinstance(a, Seq) and isinstance(b, Seq):
                if not a.length.eq(b.length):
                    raise Uninterpretable("element-wise operation on sequences of different lengths (%r vs %r): %s" % (a.length, b.length, ast.unparse(e)))
                return Seq(lambda i: op(a.fn(i), b.fn(i)), a.length)
            if isinstance(a, Seq) and isinstance(b, Rat):
                return Seq(lambda i: op(a.fn(i), b), a.length)
            if isinstance(a, Rat) and isinstance(b, Seq):
                return Seq(lambda i: op(a, b.fn(i)), b.length)
            raise Uninterpretable("operands of %s" % ast.unparse(e))
        if isinstance(e, ast.Subscript):
            base = self.ev(e.value)
            if isinstance(base, Seq):
                last = self.last_index(e.slice)
                if isinstance(last, ast.Slice):
                    if last.step is not None:
                        raise Uninterpretable("strided slice %s" % ast.unparse(e))
                    lo = _const_int(last.lower) if last.lower is not None else 0
                    hi = _const_int(last.upper) if last.upper is not None else None
                    if lo is None or lo < 0 or (last.upper is not None and hi is None):
                        raise Uninterpretable("slice bounds %s" % ast.unparse(e))
                    if hi is None:
                        ln = base.length - C(lo)
                    elif hi < 0:
                        ln = base.length + C(hi) - C(lo)
                    else:
                        ln = C(hi - lo)
                    return Seq(lambda i, lo=lo: base.fn(i + C(lo)), ln, base.zero)
                k = _const_int(last)
                if k is None:
                    raise Uninterpretable("index %s" % ast.unparse(e))
                return base.fn(C(k)) if k >= 0 else base.fn(base.length + C(k))
            if isinstance(base, Opaque) and ast.unparse(e.value).endswith(".shape"):
                if _const_int(e.slice) == -1:
                    return self.NR
                return Opaque("shape part")
            if isinstance(base, Opaque):
                return Opaque("subscript of opaque")
            raise Uninterpretable("subscript %s" % ast.unparse(e))
        if isinstance(e, ast.Attribute):
            if isinstance(e.value, ast.Name) and e.value.id == self.xp and e.attr in ("shape", "dtype", "device"):
                return Opaque(self.xp + "." + e.attr)
            raise Uninterpretable("attribute %s" % ast.unparse(e))
        if isinstance(e, ast.Tuple):
            return Opaque("tuple")
        if isinstance(e, ast.Starred):
            return Opaque("starred")
        if isinstance(e, ast.Call):
            fn = ast.unparse(e.func)
            if fn == "torch.zeros_like" and e.args:
                v = self.ev(e.args[0])
                if isinstance(v, Seq):
                    return Seq(lambda i: C(0), v.length, zero=True)
            if fn == "torch.zeros":
                return "NEWMAT"
            if fn == "torch.cat" and e.args and isinstance(e.args[0], (ast.Tuple, ast.List)):
                parts = [self.ev(x) for x in e.args[0].elts]
                if len(parts) == 3 and all(isinstance(p, Seq) for p in parts) and parts[0].zero and parts[2].zero \
                        and parts[0].length.eq(C(1)) and parts[2].length.eq(C(1)) and parts[1].is_base:
                    mid = parts[1]
                    # zero extension by one element at both ends: a[-1] and a[len] are zero (see `zero_ext`)
                    self.zero_ext = True
                    return Seq(lambda j: mid.fn(j - C(1)), mid.length + C(2))
                raise Uninterpretable("concatenation other than (zero, inverse widths, zero): %s" % ast.unparse(e))
            if isinstance(e.func, ast.Attribute) and e.func.attr == "diagonal" and isinstance(e.func.value, ast.Name) and e.func.value.id in self.mats:
                kw = {k.arg: _const_int(k.value) for k in e.keywords}
                off = kw.get("offset", 0) if not e.args else _const_int(e.args[0])
                if kw.get("dim1", -2) != -2 or kw.get("dim2", -1) != -1 or off is None:
                    raise Uninterpretable("diagonal view %s" % ast.unparse(e))
                return DiagView(e.func.value.id, off)
            if fn in ("torch.linalg.solve", "torch.solve") and len(e.args) == 2 and all(isinstance(a, ast.Name) and a.id in self.mats for a in e.args):
                self.solve = (e.args[0].id, e.args[1].id)
                return "SOLVE"
            raise Uninterpretable("call %s" % ast.unparse(e)[:80])
        raise Uninterpretable("expression %s" % ast.unparse(e)[:80])

    # ---------------------------------------------------------------- statements
    def run(self, stmts, bc: str):
        for s in stmts:
            if isinstance(s, ast.Expr) and isinstance(s.value, ast.Constant):
                continue
            if isinstance(s, ast.Pass):
                continue
            if isinstance(s, ast.Return):
                v = self.ev(s.value)
                self.ret_is_solve = (v == "SOLVE")
                return
            if isinstance(s, ast.If):
                self.run_bc_chain(s, bc)
                continue
            if isinstance(s, ast.Raise):
                raise Uninterpretable("raise reached for bc_type=%s" % bc)
            if isinstance(s, ast.Assign) and len(s.targets) == 1:
                tg = s.targets[0]
                if isinstance(tg, ast.Name):
                    v = self.ev(s.value)
                    if v == "NEWMAT":
                        self.mats[tg.id] = Mat()
                        self.env[tg.id] = Opaque("matrix")
                    else:
                        self.env[tg.id] = v
                        # recognise the inverse interval widths: 1 / (x[i+1] - x[i])
                        if isinstance(v, Seq) and v.length.eq(self.NR - C(1)):
                            i = S("i")
                            try:
                                if v.fn(i).eq(C(1) / (S("X[1+i]") - S("X[i]"))):
                                    self.env[tg.id] = Seq(lambda j: _atom_a(j), self.NR - C(1), is_base=True)
                                    self.base_name = tg.id
                            except ZeroDivisionError:
                                pass
                    continue
                if isinstance(tg, ast.Subscript):
                    self.store(tg, s.value, "=", s)
                    continue
                raise Uninterpretable("assignment target %s" % ast.unparse(tg))
            if isinstance(s, ast.AugAssign) and isinstance(s.target, ast.Subscript):
                op = {ast.Add: "+=", ast.Sub: "-="}.get(type(s.op))
                if op is None:
                    raise Uninterpretable("augmented store %s" % ast.unparse(s))
                self.store(s.target, s.value, op, s)
                continue
            raise Uninterpretable("statement %s" % norm_stmt(s))

    def run_bc_chain(self, s: ast.If, bc: str):
        """one `if` on the boundary-condition selector, evaluated for the concrete value `bc` (any mix of ==, !=, in, not in, and / or /
        not; elif chains, guard clauses and negated guards all reduce to this)"""
        def ev(t):
            if isinstance(t, ast.BoolOp):
                vs = [ev(v) for v in t.values]
                return all(vs) if isinstance(t.op, ast.And) else any(vs)
            if isinstance(t, ast.UnaryOp) and isinstance(t.op, ast.Not):
                return not ev(t.operand)
            if isinstance(t, ast.Compare) and isinstance(t.left, ast.Name) and t.left.id == self.bcp and len(t.ops) == 1:
                op, r = t.ops[0], t.comparators[0]
                if isinstance(r, ast.Constant) and isinstance(op, (ast.Eq, ast.NotEq)):
                    return (bc == r.value) == isinstance(op, ast.Eq)
                if isinstance(r, (ast.Tuple, ast.List, ast.Set)) and isinstance(op, (ast.In, ast.NotIn)) and all(isinstance(e, ast.Constant) for e in r.elts):
                    return (bc in [e.value for e in r.elts]) == isinstance(op, ast.In)
            raise Uninterpretable("condition %s" % ast.unparse(t))
        self.run(s.body if ev(s.test) else s.orelse, bc)

    def store(self, tg: ast.Subscript, value: ast.AST, op: str, stmt):
        base = tg.value
        if isinstance(base, ast.Name) and isinstance(self.env.get(base.id), DiagView):
            dv: DiagView = self.env[base.id]
            last = self.last_index(tg.slice)
            if not (isinstance(last, ast.Slice) and last.lower is None and last.upper is None and last.step is None) or op != "=":
                raise Uninterpretable("store into a diagonal view other than `[..., :] = seq`: %s" % norm_stmt(stmt))
            v = self.ev(value)
            if not isinstance(v, Seq):
                raise Uninterpretable("diagonal filled with a non-sequence")
            want = self.NR - C(abs(dv.offset))
            if not v.length.eq(want):
                raise Uninterpretable("diagonal %d has %r entries but is filled with a sequence of %r" % (dv.offset, want, v.length))
            m = self.mats[dv.mat_name]
            if m.rowops:
                raise Uninterpretable("diagonal filled after point updates")
            m.bands[dv.offset] = v
            return
        if isinstance(base, ast.Name) and base.id in self.mats:
            sl = tg.slice
            if not (isinstance(sl, ast.Tuple) and len(sl.elts) == 3 and isinstance(sl.elts[0], ast.Constant) and sl.elts[0].value is Ellipsis):
                raise Uninterpretable("matrix store %s" % norm_stmt(stmt))
            r = _const_int(sl.elts[1])
            if r not in (0, -1):
                raise Uninterpretable("point update of a row other than the first or last: %s" % norm_stmt(stmt))
            ce = sl.elts[2]
            if isinstance(ce, ast.Slice) and ce.lower is None and ce.upper is None and ce.step is None:
                col = ":"
            else:
                col = _const_int(ce)
                if col is None:
                    raise Uninterpretable("column of %s" % norm_stmt(stmt))
            v = self.ev(value)
            if not isinstance(v, Rat):
                raise Uninterpretable("matrix entry set to a non-scalar: %s" % norm_stmt(stmt))
            self.mats[base.id].rowops.append((r, col, op, v, stmt))
            return
        raise Uninterpretable("store %s" % norm_stmt(stmt))

    # ---------------------------------------------------------------- rows
    def colkey(self, c: int):
        n = _const_of(self.NR)
        if n is not None:
            return c if c >= 0 else n + c
        return c if c >= 0 else "n-%d" % (-c)

    def zero_sub(self, v: Rat) -> Rat:
        """a[-1] = a[nr-1] = 0: the inverse widths were zero-extended by one element at both ends"""
        for sym in list(v.symbols()):
            idx = _atom_index(sym)
            n = _const_of(self.NR)
            if idx in ("-1", "-1+nr") or (n is not None and idx == str(n - 1)):
                v = v.subs(sym, C(0))
        return v

    def row(self, mat: Mat, which: str) -> Dict[Any, Rat]:
        out: Dict[Any, Rat] = {}
        if which == "interior":
            r = S("r")
            for o, seq in mat.bands.items():
                key = "r%+d" % o if o else "r"
                out[key] = seq.fn(r) if o >= 0 else seq.fn(r + C(o))
            return out
        if which == "first":
            for o, seq in mat.bands.items():
                if o >= 0:
                    out[o] = self.zero_sub(seq.fn(C(0)))
            rsel = 0
        else:
            for o, seq in mat.bands.items():
                if o <= 0:
                    out[self.colkey(-1 + o)] = self.zero_sub(seq.fn(self.NR - C(1) + C(o)) if o < 0 else seq.fn(self.NR - C(1)))
            rsel = -1
        for (r, col, op, v, stmt) in mat.rowops:
            if r != rsel:
                continue
            if col == ":":
                if op != "=" or not v.is_zero():
                    raise Uninterpretable("whole-row update other than `= 0`: %s" % norm_stmt(stmt))
                for k in list(out):
                    out[k] = C(0)
                continue
            k = self.colkey(col)
            cur = out.get(k, C(0))
            out[k] = v if op == "=" else (cur + v if op == "+=" else cur - v)
        return {k: v for k, v in out.items() if not v.is_zero()}


# ---------------------------------------------------------------------------------------------- expected rows
def _diff(p: Poly, sym: str) -> Poly:
    out = {}
    for k, v in p.t.items():
        d = dict(k)
        e = d.get(sym, 0)
        if e == 0:
            continue
        if e == 1:
            d.pop(sym)
        else:
            d[sym] = e - 1
        key = tuple(sorted(d.items()))
        out[key] = out.get(key, 0) + v * e
    return Poly(out)


class HermiteDerivs:
    """second and third x-derivatives of the Hermite piece on one interval, in terms of the inverse width A"""

    def __init__(self, hermite: Callable[[Rat], Rat]):
        h = hermite(S("t"))
        h = h.subs("xr", S("xl") + S("DX"))
        if h.d != Poly.const(1):
            raise Uninterpretable("Hermite form is not polynomial in t")
        p = h.n
        self.d2 = Rat(_diff(_diff(p, "t"), "t"))
        self.d3 = Rat(_diff(_diff(_diff(p, "t"), "t"), "t"))

    def inst(self, expr: Rat, t, A: Rat, yl: Rat, yr: Rat, kl: Rat, kr: Rat, power: int) -> Rat:
        v = expr
        if t is not None:
            v = v.subs("t", C(t))
        v = v.subs("DX", C(1) / A)
        for s, r in (("yl", yl), ("yr", yr), ("kl", kl), ("kr", kr)):
            v = v.subs(s, r)
        return v * (A ** power)

    def s2(self, t, A, yl, yr, kl, kr):
        return self.inst(self.d2, t, A, yl, yr, kl, kr, 2)

    def s3(self, A, yl, yr, kl, kr):
        v = self.inst(self.d3, None, A, yl, yr, kl, kr, 3)
        if "t" in v.symbols():
            raise Uninterpretable("third derivative of the Hermite piece is not constant")
        return v


def _K(key):
    return S("k{%s}" % key)


def _Y(key):
    return S("y{%s}" % key)


def _equation_to_row(eq: Rat, keys) -> Dict[Tuple[str, Any], Rat]:
    """eq(k, y) == 0  ->  {("k", key): coeff, ("y", key): -coeff}  (L k = R y)"""
    if eq.d != Poly.const(1):
        # clear a (polynomial) denominator: allowed because rows are compared projectively
        eq = Rat(eq.n)
    row = {}
    rest = eq
    for key in keys:
        for kind, mk, sign in (("k", _K, 1), ("y", _Y, -1)):
            sym = list(mk(key).symbols())[0]
            c = Rat(eq.n.coeff_of(sym, 1))
            if eq.n.degree(sym) > 1:
                raise Uninterpretable("condition is not linear in %s" % sym)
            if not c.is_zero():
                row[(kind, key)] = c if sign == 1 else -c
            rest = rest - Rat(eq.n.coeff_of(sym, 1)) * mk(key)
    if not rest.is_zero():
        raise Uninterpretable("condition has terms outside the expected unknowns: %r" % rest)
    return row


def expected_rows(hd: HermiteDerivs, bc: str, nr: Optional[Rat] = None):
    """returns {"interior": row, "first": [accepted rows], "last": [accepted rows]} (each row a dict)"""
    a = _atom_a
    r = S("r")
    out = {}
    N_ = nr if nr is not None else NR
    nconst = _const_of(N_)

    def key(k):
        """column key: k from the end (k = 1 -> last column)"""
        return (nconst - k) if nconst is not None else "n-%d" % k
    n1, n2, n3 = key(1), key(2), key(3)
    # interior knot r: S''_{r-1}(1) == S''_r(0)
    eq = hd.s2(1, a(r - C(1)), _Y("r-1"), _Y("r"), _K("r-1"), _K("r")) - hd.s2(0, a(r), _Y("r"), _Y("r+1"), _K("r"), _K("r+1"))
    out["interior"] = _equation_to_row(eq, ["r-1", "r", "r+1"])
    a0, a1, al, al2 = a(C(0)), a(C(1)), a(N_ - C(2)), a(N_ - C(3))
    if bc == "natural":
        out["first"] = [_equation_to_row(hd.s2(0, a0, _Y(0), _Y(1), _K(0), _K(1)), [0, 1])]
        out["last"] = [_equation_to_row(hd.s2(1, al, _Y(n2), _Y(n1), _K(n2), _K(n1)), [n2, n1])]
    elif bc == "clamped":
        out["first"] = [{("k", 0): C(1)}]
        out["last"] = [{("k", n1): C(1)}]
    elif bc == "not-a-knot":
        e0 = hd.s3(a0, _Y(0), _Y(1), _K(0), _K(1)) - hd.s3(a1, _Y(1), _Y(2), _K(1), _K(2))
        e1 = hd.s3(al2, _Y(n3), _Y(n2), _K(n3), _K(n2)) - hd.s3(al, _Y(n2), _Y(n1), _K(n2), _K(n1))
        out["first"] = [_equation_to_row(e0, sorted({0, 1, 2}))]
        out["last"] = [_equation_to_row(e1, _uniq([n3, n2, n1]))]
    elif bc == "periodic":
        # wrap-around knot: S''_{last}(1) == S''_0(0) with the end knot identified with the first one
        ef = hd.s2(1, al, _Y(n2), _Y(0), _K(n2), _K(0)) - hd.s2(0, a0, _Y(0), _Y(1), _K(0), _K(1))
        el = hd.s2(1, al, _Y(n2), _Y(n1), _K(n2), _K(n1)) - hd.s2(0, a0, _Y(n1), _Y(1), _K(n1), _K(1))
        tie = {("k", 0): C(1), ("k", n1): C(-1)}
        out["first"] = [_equation_to_row(ef, _uniq([n2, 0, 1])), tie]
        out["last"] = [_equation_to_row(el, _uniq([n2, n1, 1])), tie]
        out["need_wrap"] = True
    else:
        raise Uninterpretable("no specification for boundary condition %r" % bc)
    return out


def _uniq(keys):
    out = []
    for k in keys:
        if k not in out:
            out.append(k)
    return out


def proportional(a: Dict, b: Dict) -> bool:
    """rows equal up to a non-zero rational-function factor"""
    keys = set(a) | set(b)
    pa = [k for k in keys if k in a and not a[k].is_zero()]
    if not pa:
        return not [k for k in keys if k in b and not b[k].is_zero()]
    p = pa[0]
    if p not in b or b[p].is_zero():
        return False
    for k in keys:
        x, y = a.get(k, C(0)), b.get(k, C(0))
        if not (x * b[p]).eq(y * a[p]):
            return False
    return True


def fmt_row(row: Dict) -> str:
    def ks(k):
        return "%s[%s]" % k
    return "{" + ", ".join("%s: %r" % (ks(k), row[k]) for k in sorted(row, key=lambda z: (z[0], str(z[1])))) + "}"


# ---------------------------------------------------------------------------------------------- the rule
def check_slope_system(model: Model, B, prop: str, rule: str, hermite: Callable[[Rat], Rat]):
    fi = model.func(I1D, "_get_spline_mat_inv")
    try:
        hd = HermiteDerivs(hermite)
    except Uninterpretable as e:
        raise AnalysisError("%s: cannot differentiate the Hermite form: %s" % (rule, e))
    # boundary conditions implemented = branches of the chain
    from ..model import mode_paths, OTHER_MODE
    mp = mode_paths(fi.node.body, fi.params()[1])
    bcs = [v for v, (_, end) in mp.items() if isinstance(v, str) and v != OTHER_MODE and end != "raise"]
    if not bcs:
        raise AnalysisError("%s: no boundary-condition branches found in _get_spline_mat_inv" % rule)
    for bc in bcs:
        it = SplineSysInterp(fi, fi.module.source)
        try:
            it.run(fi.node.body, bc)
            if it.solve is None or not it.ret_is_solve:
                raise Uninterpretable("the function does not return torch.linalg.solve(<L>, <R>)")
            L, R = it.mats[it.solve[0]], it.mats[it.solve[1]]
            exp = expected_rows(hd, bc)
            rows = {}
            for which in ("interior", "first", "last"):
                lrow, rrow = it.row(L, which), it.row(R, which)
                rows[which] = {**{("k", k): v for k, v in lrow.items()}, **{("y", k): v for k, v in rrow.items()}}
        except Uninterpretable as e:
            raise AnalysisError("%s: cannot interpret _get_spline_mat_inv for bc_type=%r: %s" % (rule, bc, e))
        # interior
        what = "bc=%s interior row r: %s" % (bc, fmt_row(rows["interior"]))
        if proportional(rows["interior"], exp["interior"]):
            B.ok(fi.fq, "bc=%s: interior row r is the C2 condition S''_{r-1}(x_r) = S''_r(x_r) of the Hermite form" % bc, row=fmt_row(rows["interior"]))
        else:
            B.bad(fi, fi.node, "bc=%s: the interior row of the slope system is not the C2-continuity condition of the evaluated Hermite form: found %s, "
                  "expected (up to scaling) %s" % (bc, fmt_row(rows["interior"]), fmt_row(exp["interior"])), what=what)
        names = {"natural": "S''=0 at the end", "clamped": "k=0 at the end", "not-a-knot": "S''' continuous across the first/last interior knot",
                 "periodic": "C2 across the wrap-around knot (or k_0 = k_{n-1})"}
        for which in ("first", "last"):
            got = rows[which]
            if any(proportional(got, e) for e in exp[which]):
                B.ok(fi.fq, "bc=%s: %s row is the '%s' condition: %s" % (bc, which, bc, names.get(bc, "")), row=fmt_row(got))
            else:
                ops = [op for m in (L, R) for op in m.rowops if op[0] == (0 if which == "first" else -1)]
                node = ops[0][4] if ops else fi.node
                B.bad(fi, node, "bc=%s: the %s row of the slope system is not the %s condition (%s): found %s, expected (up to scaling) %s"
                      % (bc, which, bc, names.get(bc, ""), fmt_row(got), fmt_row(exp[which][0])), what="bc=%s %s row" % (bc, which))
        if exp.get("need_wrap"):
            # at least one of the two rows must be the wrap-around C2 condition (two ties would leave the system singular)
            if proportional(rows["first"], exp["first"][1]) and proportional(rows["last"], exp["last"][1]):
                B.bad(fi, fi.node, "bc=periodic: both boundary rows are the tie k_0 = k_{n-1}; the wrap-around C2 condition is missing")
    # small grids, where the named boundary columns coincide (column -2 is column 1 for nr = 3, ...): the same comparison with a concrete size;
    # point updates are applied in program order on the concrete columns, so `=` versus `+=` on a colliding entry is visible
    small = []
    for n in (3, 4, 5):
        for bc in bcs:
            it = SplineSysInterp(fi, fi.module.source, nr=C(n))
            try:
                it.run(fi.node.body, bc)
                if it.solve is None:
                    raise Uninterpretable("no solve")
                L, R = it.mats[it.solve[0]], it.mats[it.solve[1]]
                exp = expected_rows(hd, bc, nr=C(n))
                ok = True
                for which in ("first", "last"):
                    lrow, rrow = it.row(L, which), it.row(R, which)
                    got = {**{("k", k): v for k, v in lrow.items()}, **{("y", k): v for k, v in rrow.items()}}
                    if not any(proportional(got, e) for e in exp[which]):
                        ok = False
                        ops = [op for m in (L, R) for op in m.rowops if op[0] == (0 if which == "first" else -1)]
                        B.bad(fi, ops[0][4] if ops else fi.node, "bc=%s, nr=%d: the %s row of the slope system is not the %s condition on a grid this small (named boundary columns "
                              "coincide and the point updates interact): found %s, expected (up to scaling) %s" % (bc, n, which, bc, fmt_row(got), fmt_row(exp[which][0])),
                              what="bc=%s nr=%d %s row" % (bc, n, which))
                if ok:
                    small.append((n, bc))
            except Uninterpretable as e:
                raise AnalysisError("%s: cannot interpret _get_spline_mat_inv for bc_type=%r at nr=%d: %s" % (rule, bc, n, e))
    if len(small) == 3 * len(bcs):
        B.ok(fi.fq, "boundary rows also hold for the small grids nr = 3, 4, 5 (colliding boundary columns) for every boundary condition")
    B.note("boundary conditions interpreted: %s; sizes: symbolic nr (>= 6) and nr = 3, 4, 5" % bcs)
    return bcs
