"""Index-notation domain for small tensor contractions (nothing is computed).

A value is a polynomial  sum_k coef_k * prod_j atom_j[idx...]  with some index labels summed, together with the list of labels of its
*trailing* axes (leading batch axes are implicit and broadcast).  `y.unsqueeze(-2) * w` then `.sum(dim=-1)`, `w @ y[..., None]` then
`[..., 0]`, `torch.einsum("rc,...c->...r", w, y)` and `torch.matmul(y, w[-1])` all evaluate to the same canonical polynomial, so
"integrate(y) is the last entry of cumsum(y)" or "row r of W is contracted with y" can be decided whatever spelling the source uses.

Axis labels: a string is an index variable, None a broadcast axis of size 1, an int a fixed position (after `x[..., -1, :]`).
"""
from __future__ import annotations
import ast
import itertools
from fractions import Fraction
from typing import Dict, List, Optional, Tuple


class Unsupported(Exception):
    pass


class BatchMix(Exception):
    """an operation whose meaning changes when an operand carries batch axes (a batched 'vector' used as a matrix)"""


class IX:
    """axes: labels of the trailing axes (left to right); terms: list of (coef, factors, summed) with factors a tuple of
    (atom, index tuple) and summed a frozenset of labels"""
    _n = [0]

    def __init__(self, axes, terms, batched: bool = True):
        self.axes = list(axes)
        self.terms = list(terms)
        self.batched = batched          # may carry (implicit) leading batch axes besides the listed trailing ones

    @classmethod
    def fresh(cls, hint="i") -> str:
        cls._n[0] += 1
        return "%s%d" % (hint, cls._n[0])

    @classmethod
    def atom(cls, name: str, rank: int, batched: bool = True) -> "IX":
        labels = [cls.fresh() for _ in range(rank)]
        return cls(labels, [(Fraction(1), ((name, tuple(labels)),), frozenset())], batched)

    def rename(self, mapping: Dict[str, object]) -> "IX":
        def r(x):
            return mapping.get(x, x) if isinstance(x, str) else x
        terms = []
        for c, fs, sm in self.terms:
            terms.append((c, tuple((a, tuple(r(i) for i in idx)) for a, idx in fs), frozenset(r(s) for s in sm)))
        return IX([r(a) for a in self.axes], terms, self.batched)

    def fresh_copy(self) -> "IX":
        """the same value with new names for all its labels (every read of a variable gets its own labels)"""
        labs = {a for a in self.axes if isinstance(a, str)} | {i for _c, fs, sm in self.terms for _a, idx in fs for i in idx if isinstance(i, str)} | \
               {x for _c, _f, sm in self.terms for x in sm}
        return self.rename({l: IX.fresh("v") for l in labs})

    def refresh_summed(self) -> "IX":
        """give the summed labels new names (before combining two values, so that they cannot clash)"""
        terms = []
        for c, fs, sm in self.terms:
            mp = {s: IX.fresh("s") for s in sm}
            terms.append((c, tuple((a, tuple(mp.get(i, i) if isinstance(i, str) else i for i in idx)) for a, idx in fs), frozenset(mp.values())))
        return IX(self.axes, terms, self.batched)

    # ------------------------------------------------------------------ canonical form
    def canonical(self):
        """axes renamed a0, a1, .. by position; summed labels renamed by the lexicographically smallest choice; terms merged"""
        amap = {}
        for k, a in enumerate(self.axes):
            if isinstance(a, str) and a not in amap:
                amap[a] = "a%d" % k
        acc: Dict[Tuple, Fraction] = {}
        for c, fs, sm in self.terms:
            fs1 = tuple((a, tuple(amap.get(i, i) if isinstance(i, str) else i for i in idx)) for a, idx in fs)
            sm = sorted(sm)
            best = None
            for perm in itertools.permutations(range(len(sm))):
                mp = {s: "s%d" % perm[k] for k, s in enumerate(sm)}
                cand = tuple(sorted((a, tuple(mp.get(i, i) if isinstance(i, str) else i for i in idx)) for a, idx in fs1))
                if best is None or repr(cand) < repr(best):
                    best = cand
            key = (best, len(sm))
            acc[key] = acc.get(key, Fraction(0)) + c
        axes = tuple(amap.get(a, a) if isinstance(a, str) else a for a in self.axes)
        return axes, tuple(sorted(((k, v) for k, v in acc.items() if v != 0), key=repr))

    def same(self, other: "IX") -> bool:
        return self.canonical() == other.canonical()

    def show(self) -> str:
        axes, terms = self.canonical()
        out = []
        for (fs, nsum), c in terms:
            out.append(("%s*" % c if c != 1 else "") + ("sum " if nsum else "") + " ".join("%s[%s]" % (a, ",".join(str(i) for i in idx)) for a, idx in fs))
        return "[%s] %s" % (",".join(str(a) for a in axes), " + ".join(out) or "0")


def _norm(k: int, n: int) -> int:
    if k < 0:
        k += n
    if not 0 <= k < n:
        raise Unsupported("axis %d of a value with %d known trailing axes" % (k, n))
    return k


def conj(v: IX) -> IX:
    """complex conjugate: toggles the `*` mark of every atom (coefficients are real)"""
    return IX(v.axes, [(c, tuple(((a[:-1] if a.endswith("*") else a + "*"), idx) for a, idx in fs), sm) for c, fs, sm in v.terms], v.batched)


def unsqueeze(v: IX, k: int) -> IX:
    if k >= 0:
        raise Unsupported("unsqueeze at a position counted from the left (batch axes are implicit)")
    axes = list(v.axes)
    pos = len(axes) + 1 + k
    if pos < 0:
        raise Unsupported("unsqueeze beyond the known axes")
    axes.insert(pos, None)
    return IX(axes, v.terms, v.batched)


def squeeze(v: IX, k: int) -> IX:
    if k >= 0:
        raise Unsupported("squeeze at a position counted from the left")
    pos = _norm(k, len(v.axes))
    if v.axes[pos] is not None:
        raise Unsupported("squeeze of an axis that is not known to have size 1")
    axes = list(v.axes)
    del axes[pos]
    return IX(axes, v.terms, v.batched)


def _align(a: IX, b: IX):
    """broadcast two values: returns (axes, a', b') with unified labels"""
    a, b = a.refresh_summed(), b.refresh_summed()
    n = max(len(a.axes), len(b.axes))
    ax_a = [None] * (n - len(a.axes)) + list(a.axes)
    ax_b = [None] * (n - len(b.axes)) + list(b.axes)
    if len(a.axes) != len(b.axes) and min(len(a.axes), len(b.axes)) > 0:
        # the shorter operand's missing leading axes are batch axes of the other: fine (broadcast)
        pass
    mp: Dict[str, object] = {}
    axes = []
    for x, y in zip(ax_a, ax_b):
        if x is None:
            axes.append(y)
        elif y is None:
            axes.append(x)
        elif isinstance(x, str) and isinstance(y, str):
            mp[y] = x
            axes.append(x)
        elif x == y:
            axes.append(x)
        else:
            raise Unsupported("broadcast of a fixed position with an index")
    b2 = b.rename(mp)
    axes = [mp.get(t, t) if isinstance(t, str) else t for t in axes]
    return axes, a, b2


def mul(a: IX, b: IX) -> IX:
    axes, a, b = _align(a, b)
    terms = []
    for c1, f1, s1 in a.terms:
        for c2, f2, s2 in b.terms:
            terms.append((c1 * c2, tuple(f1) + tuple(f2), s1 | s2))
    return IX(axes, terms, a.batched or b.batched)


def add(a: IX, b: IX, sign: int = 1) -> IX:
    axes, a, b = _align(a, b)
    return IX(axes, list(a.terms) + [(c * sign, f, s) for c, f, s in b.terms], a.batched or b.batched)


def scale(a: IX, c) -> IX:
    return IX(a.axes, [(k * Fraction(c), f, s) for k, f, s in a.terms], a.batched)


def sum_axis(v: IX, k: int) -> IX:
    if k >= 0:
        raise Unsupported("sum over an axis counted from the left")
    pos = _norm(k, len(v.axes))
    lab = v.axes[pos]
    axes = list(v.axes)
    del axes[pos]
    if lab is None:
        return IX(axes, v.terms, v.batched)
    if not isinstance(lab, str):
        raise Unsupported("sum over a fixed position")
    return IX(axes, [(c, f, s | {lab}) for c, f, s in v.terms], v.batched)


def fix_axis(v: IX, k: int, pos_value: int, from_left: bool = False) -> IX:
    """x[..., pos_value, <rest>]: the k-th trailing axis is fixed to a position and removed"""
    pos = k if from_left else _norm(k, len(v.axes))
    if from_left and v.batched:
        raise Unsupported("index counted from the left of a value that may carry batch axes")
    if from_left and not 0 <= pos < len(v.axes):
        raise Unsupported("index beyond the known axes")
    lab = v.axes[pos]
    axes = list(v.axes)
    del axes[pos]
    if lab is None:
        if pos_value in (0, -1):
            return IX(axes, v.terms, v.batched)
        raise Unsupported("position %d of a size-1 axis" % pos_value)
    return IX(axes, v.terms, v.batched).rename({lab: pos_value}) if isinstance(lab, str) else IX(axes, v.terms, v.batched)


def transpose(v: IX, i: int, j: int) -> IX:
    if i >= 0 or j >= 0:
        raise Unsupported("transpose with axes counted from the left")
    a, b = _norm(i, len(v.axes)), _norm(j, len(v.axes))
    axes = list(v.axes)
    axes[a], axes[b] = axes[b], axes[a]
    return IX(axes, v.terms, v.batched)


def matmul(a: IX, b: IX) -> IX:
    ra, rb = len(a.axes), len(b.axes)
    if ra == 0 or rb == 0:
        raise Unsupported("matmul of a value without known axes")
    if rb == 1:
        # (.., i, k) @ (k,)  ->  (.., i): torch treats the second operand as a vector only if it is exactly 1-D
        if b.batched:
            raise BatchMix("the second operand of matmul is a vector that may carry batch axes: with batch axes it is used as a matrix")
        return sum_axis(mul(a, b), -1)
    if ra == 1:
        # (k,) @ (.., k, j) -> (.., j).  A 'vector' with batch axes (B, k) is a matrix for torch: rows times an UNBATCHED matrix is still
        # right, but against a batched matrix its batch axis is taken for the row index
        if a.batched and b.batched:
            raise BatchMix("a vector that may carry batch axes is the first operand of matmul with a matrix that may be batched: its last batch axis is used as a row index")
        return sum_axis(mul(unsqueeze(a, -1), b), -2)
    # (.., i, k) @ (.., k, j): A -> (.., i, k, 1), B -> (.., 1, k, j), sum over k
    return sum_axis(mul(unsqueeze(a, -1), unsqueeze(b, -3)), -2)


def einsum(spec: str, ops: List[IX]) -> IX:
    spec = spec.replace(" ", "")
    if len(ops) == 2:
        import re as _re
        m_ = _re.fullmatch(r"\.\.\.(\w)(\w),\.\.\.(\w)(\w)->\.\.\.(\w)", spec)
        if m_ and m_.group(1) == m_.group(3) and m_.group(2) == m_.group(4) == m_.group(5) and m_.group(1) != m_.group(2):
            # the column-wise contraction is the elementwise product (with its broadcasting) summed over the last-but-one axis
            return sum_axis(mul(ops[0], ops[1]), -2)
    if "->" not in spec:
        raise Unsupported("implicit einsum output")
    lhs, rhs = spec.split("->")
    terms = lhs.split(",")
    if len(terms) != len(ops):
        raise Unsupported("einsum arity")
    # name every letter with one shared label; `...` stands for the implicit batch axes
    letter: Dict[str, str] = {}
    vals = []
    for t, v in zip(terms, ops):
        v = v.refresh_summed()
        t_ = t.replace("...", "")
        if len(t_) > len(v.axes):
            raise Unsupported("einsum operand with fewer known axes than letters")
        extra = len(v.axes) - len(t_)
        if extra and "..." not in t:
            raise Unsupported("einsum operand rank")
        if "..." in t and not t.startswith("..."):
            raise Unsupported("einsum ellipsis not leading")
        mp = {}
        for ch, lab in zip(t_, v.axes[extra:]):
            if lab is None or not isinstance(lab, str):
                raise Unsupported("einsum over a broadcast / fixed axis")
            if ch not in letter:
                letter[ch] = IX.fresh("e")
            mp[lab] = letter[ch]
        if extra:
            raise Unsupported("einsum operand whose batch axes are explicit")
        vals.append(v.rename(mp))
    rhs_ = rhs.replace("...", "")
    prod_terms = [(Fraction(1), (), frozenset())]
    for v in vals:
        new = []
        for c1, f1, s1 in prod_terms:
            for c2, f2, s2 in v.terms:
                new.append((c1 * c2, tuple(f1) + tuple(f2), s1 | s2))
        prod_terms = new
    summed = {lab for ch, lab in letter.items() if ch not in rhs_}
    axes = [letter[ch] for ch in rhs_]
    return IX(axes, [(c, f, s | summed) for c, f, s in prod_terms], any(v.batched for v in vals))


class IndexEval:
    """evaluates the statements of a small method over IX values; `atoms` gives, for `self.<attr>` and parameter names, the number of
    known trailing axes"""
    def __init__(self, env: Dict[str, IX]):
        self.env = dict(env)
        self.returned: Optional[IX] = None

    def const_int(self, e) -> Optional[int]:
        try:
            v = ast.literal_eval(e)
        except Exception:
            return None
        return v if isinstance(v, int) and not isinstance(v, bool) else None

    def kw_dim(self, c: ast.Call, pos: int) -> Optional[int]:
        for k in c.keywords:
            if k.arg in ("dim", "axis"):
                return self.const_int(k.value)
        if len(c.args) > pos:
            return self.const_int(c.args[pos])
        return None

    def ev(self, e) -> IX:
        src = ast.unparse(e)
        if src in self.env:
            return self.env[src].fresh_copy()
        if isinstance(e, ast.Constant) and isinstance(e.value, (int, float)) and not isinstance(e.value, bool):
            return IX([], [(Fraction(repr(e.value)) if isinstance(e.value, float) else Fraction(e.value), (), frozenset())], False)
        if isinstance(e, ast.UnaryOp) and isinstance(e.op, ast.USub):
            return scale(self.ev(e.operand), -1)
        if isinstance(e, ast.BinOp):
            if isinstance(e.op, ast.MatMult):
                return matmul(self.ev(e.left), self.ev(e.right))
            a, b = self.ev(e.left), self.ev(e.right)
            if isinstance(e.op, ast.Mult):
                return mul(a, b)
            if isinstance(e.op, ast.Add):
                return add(a, b)
            if isinstance(e.op, ast.Sub):
                return add(a, b, -1)
            raise Unsupported("operator %s" % type(e.op).__name__)
        if isinstance(e, ast.Subscript):
            v = self.ev(e.value)
            parts = list(e.slice.elts) if isinstance(e.slice, ast.Tuple) else [e.slice]
            is_ell = lambda p: isinstance(p, ast.Constant) and p.value is Ellipsis
            is_full = lambda p: isinstance(p, ast.Slice) and p.lower is None and p.upper is None and p.step is None
            is_none = lambda p: isinstance(p, ast.Constant) and p.value is None
            if any(is_ell(p) for p in parts):
                if not is_ell(parts[0]) or sum(1 for p in parts if is_ell(p)) != 1:
                    raise Unsupported("ellipsis not leading in %s" % src)
                tail = parts[1:]
                # process from the right: position counted from the end among the ORIGINAL axes
                n_orig = sum(1 for p in tail if not is_none(p))
                out = v
                # first fix the integer positions (right to left keeps the negative offsets valid)
                off = 0
                for p in reversed(tail):
                    if is_none(p):
                        continue
                    off += 1
                    k = self.const_int(p)
                    if k is not None:
                        out = fix_axis(out, -off, k)
                        off -= 1
                    elif not is_full(p):
                        raise Unsupported("slice %s" % src)
                # then insert the new axes
                pos_from_right = 0
                for p in reversed(tail):
                    if is_none(p):
                        out = unsqueeze(out, -(pos_from_right + 1))
                        pos_from_right += 1
                    elif self.const_int(p) is None:
                        pos_from_right += 1
                return out
            # no ellipsis: indices apply from the left of the KNOWN axes (only meaningful for values without batch axes)
            out = v
            removed = 0
            for kpos, p in enumerate(parts):
                k = self.const_int(p)
                if k is not None:
                    out = fix_axis(out, kpos - removed, k, from_left=True)
                    removed += 1
                elif not is_full(p):
                    raise Unsupported("slice %s" % src)
            return out
        if isinstance(e, ast.Call):
            f = e.func
            fn = ast.unparse(f)
            is_torch = isinstance(f, ast.Attribute) and isinstance(f.value, ast.Name) and f.value.id == "torch"
            if is_torch:
                name, operands = f.attr, list(e.args)
            elif isinstance(f, ast.Attribute):
                name, operands = f.attr, [f.value] + list(e.args)
            else:
                raise Unsupported("call %s" % fn)
            if name in ("matmul", "mm", "bmm") and len(operands) == 2:
                return matmul(self.ev(operands[0]), self.ev(operands[1]))
            if name == "unsqueeze" and len(operands) == 2 and self.const_int(operands[1]) is not None:
                return unsqueeze(self.ev(operands[0]), self.const_int(operands[1]))
            if name == "squeeze" and len(operands) == 2 and self.const_int(operands[1]) is not None:
                return squeeze(self.ev(operands[0]), self.const_int(operands[1]))
            if name == "sum":
                d = self.kw_dim(e, 1 if is_torch else 0)
                if d is None:
                    raise Unsupported("sum without a constant dim")
                if any(k.arg == "keepdim" and ast.unparse(k.value) != "False" for k in e.keywords):
                    raise Unsupported("sum(keepdim=True)")
                return sum_axis(self.ev(operands[0]), d)
            if name in ("transpose", "swapaxes") and len(operands) == 3:
                i, j = self.const_int(operands[1]), self.const_int(operands[2])
                if i is None or j is None:
                    raise Unsupported("transpose with symbolic axes")
                return transpose(self.ev(operands[0]), i, j)
            if name == "einsum" and is_torch and operands and isinstance(operands[0], ast.Constant) and isinstance(operands[0].value, str):
                return einsum(operands[0].value, [self.ev(x) for x in operands[1:]])
            if name in ("mul", "multiply") and len(operands) == 2:
                return mul(self.ev(operands[0]), self.ev(operands[1]))
            if name == "add" and len(operands) == 2 and not e.keywords:
                return add(self.ev(operands[0]), self.ev(operands[1]))
            if name in ("contiguous", "clone") and len(operands) == 1:
                return self.ev(operands[0])
            if name in ("conj", "conj_physical") and len(operands) == 1:
                return conj(self.ev(operands[0]))
            if name == "resolve_conj" and len(operands) == 1:
                return self.ev(operands[0])
            if name == "adjoint" and len(operands) == 1:
                return conj(transpose(self.ev(operands[0]), -2, -1))
            if name == "movedim" and len(operands) == 3 and self.const_int(operands[1]) is not None and self.const_int(operands[2]) is not None:
                v_ = self.ev(operands[0])
                a_, b_ = self.const_int(operands[1]), self.const_int(operands[2])
                if a_ < 0 and b_ < 0:
                    axes = list(v_.axes)
                    lab = axes.pop(_norm(a_, len(axes)))
                    axes.insert(_norm(b_, len(axes) + 1), lab)
                    return IX(axes, v_.terms, v_.batched)
                raise Unsupported("movedim with axes counted from the left")
            raise Unsupported("call %s" % fn)
        if isinstance(e, ast.Attribute) and e.attr in ("mH", "mT", "H", "T"):
            v_ = transpose(self.ev(e.value), -2, -1)
            return conj(v_) if e.attr in ("mH", "H") else v_
        if isinstance(e, ast.Name):
            raise Unsupported("unbound name %s" % e.id)
        raise Unsupported("expression %s" % src[:60])

    def run(self, stmts):
        for s in stmts:
            if isinstance(s, ast.Expr) and isinstance(s.value, ast.Constant):
                continue
            if isinstance(s, ast.Assign) and len(s.targets) == 1 and isinstance(s.targets[0], ast.Name):
                self.env[s.targets[0].id] = self.ev(s.value)
            elif isinstance(s, ast.AugAssign) and isinstance(s.target, ast.Name) and isinstance(s.op, (ast.Add, ast.Sub, ast.Mult)):
                cur, r = self.ev(s.target), self.ev(s.value)
                self.env[s.target.id] = mul(cur, r) if isinstance(s.op, ast.Mult) else add(cur, r, 1 if isinstance(s.op, ast.Add) else -1)
            elif isinstance(s, ast.Return) and s.value is not None:
                self.returned = self.ev(s.value)
                return
            else:
                raise Unsupported("statement %s" % type(s).__name__)
