"""Abstract evaluation of dispatch code over *kinds* of arguments (nothing of the repository runs).

A dispatcher such as get_pure_function decides by predicates on its argument - isinstance(x, C), inspect.isfunction(x),
inspect.ismethod(x), hasattr(x, "__call__") - and builds a wrapper.  An `AObj` is an abstract argument that answers exactly those
predicates from a table; constructor calls are recorded as ("made", class name, args, kwargs).  The rule then compares, for every kind,
the outcome (made wrapper / returned token / raised) with what the contract demands - however the chain of tests is spelled."""
from __future__ import annotations
import ast
from typing import Any, Dict, Optional, Tuple
from .dictsem import DictInterp, Unsupported, Raised, _Return, ADict


class ASet(list):
    """abstract set: insertion-ordered list of hashable abstract values"""


class AObj:
    def __init__(self, name: str, classes=(), isfunction=False, ismethod=False, attrs: Optional[Dict[str, Any]] = None):
        self.name = name
        self.classes = set(classes)
        self.isfunction = isfunction
        self.ismethod = ismethod
        self.attrs = dict(attrs or {})
        self.methods: Dict[str, Any] = {}      # name -> host callable(*abstract args) -> abstract value (an uninterpreted collaborator)

    def __repr__(self):
        return "<%s>" % self.name


class HeapList(list):
    """an instance of a user-defined subclass of list: a list that also has an instance dictionary (`xv_dict`)"""
    xv_dict = None


class HeapDict(ADict):
    """an instance of a user-defined subclass of dict (OrderedDict, a config class): a dict that also has an instance dictionary"""
    xv_dict = None


class ClassTok:
    """a class object referred to by name (EditableModule, torch.nn.Module, a wrapper class): answers isinstance(x, <it>) through the
    abstract object's class table and, when called, records the construction like a literal constructor call"""
    def __init__(self, dotted: str):
        self.dotted = dotted

    def __repr__(self):
        return "<class %s>" % self.dotted

    def __eq__(self, o):
        return isinstance(o, ClassTok) and o.dotted == self.dotted

    def __hash__(self):
        return hash(("ClassTok", self.dotted))


def _dotted_names(e) -> Optional[str]:
    parts = []
    while isinstance(e, ast.Attribute):
        parts.append(e.attr)
        e = e.value
    if isinstance(e, ast.Name):
        parts.append(e.id)
        return ".".join(reversed(parts))
    return None


class Closure:
    def __init__(self, params, body, env, is_expr):
        self.params, self.body, self.env, self.is_expr = params, body, env, is_expr

    def __repr__(self):
        return "<closure>"


class KindInterp(DictInterp):
    functions: Dict[str, Any] = {}        # name -> ast.FunctionDef of module-level functions that may be called (recursion included)
    host: Dict[str, Any] = {}             # dotted name -> host callable standing for a library function (torch.cat, itertools.accumulate, ..)
    records: Dict[str, Any] = {}          # class name -> collections.namedtuple type for NamedTuple / namedtuple classes of the module
    consts: Dict[str, ast.AST] = {}       # module-level `NAME = <expr>` tables the function may consult (evaluated on use)
    depth = 0

    def ev(self, e):
        if isinstance(e, (ast.Name, ast.Attribute)) and isinstance(getattr(e, "ctx", None), ast.Load):
            d_ = _dotted_names(e)
            if d_ is not None and d_ not in self.env and d_.split(".")[0] not in self.env:
                if d_ in self.consts:
                    return self.ev(self.consts[d_])
                if d_.split(".")[-1][:1].isupper() and d_ not in self.records and d_.split(".")[-1] not in ("True", "False", "None"):
                    return ClassTok(d_)
        if isinstance(e, ast.Attribute) and not ast.unparse(e) in self.env and isinstance(e.value, ast.Call):
            # the receiver is a call: evaluate it exactly once (it may have effects on the abstract state)
            v = self.ev(e.value)
            if isinstance(v, AObj):
                if e.attr in v.attrs:
                    return v.attrs[e.attr]
                raise Raised("AttributeError %s.%s" % (v.name, e.attr))
            if isinstance(v, tuple) and hasattr(v, "_fields") and e.attr in v._fields:
                return getattr(v, e.attr)
            tmp = "$recv%d" % id(e)
            self.env[tmp] = v
            try:
                return self.ev(ast.Attribute(value=ast.Name(id=tmp, ctx=ast.Load()), attr=e.attr, ctx=ast.Load()))
            finally:
                self.env.pop(tmp, None)
        if isinstance(e, ast.Attribute) and not ast.unparse(e) in self.env:
            try:
                v = self.ev(e.value)
            except Unsupported:
                v = None
            if isinstance(v, AObj):
                if e.attr in v.attrs:
                    return v.attrs[e.attr]
                raise Raised("AttributeError %s.%s" % (v.name, e.attr))
            if e.attr == "__dict__" and type(v).__name__ == "Tok":
                return ADict({}, "tensor.__dict__")
            if e.attr == "__dict__" and isinstance(v, (HeapList, HeapDict)) and v.xv_dict is not None:
                return v.xv_dict
        if isinstance(e, ast.BinOp) and isinstance(e.op, ast.Mult):
            l_, r_ = self.ev(e.left), self.ev(e.right)
            if isinstance(l_, list) and isinstance(r_, int) and not isinstance(r_, bool):
                return l_ * r_
            if isinstance(r_, list) and isinstance(l_, int) and not isinstance(l_, bool):
                return r_ * l_
            if isinstance(l_, int) and isinstance(r_, int):
                return l_ * r_
            raise Unsupported(ast.unparse(e)[:60])
        if isinstance(e, ast.Attribute) and not ast.unparse(e) in self.env:
            try:
                v_ = self.ev(e.value)
            except Unsupported:
                v_ = None
            if isinstance(v_, tuple) and hasattr(v_, "_fields") and e.attr in v_._fields:
                return getattr(v_, e.attr)
        if isinstance(e, ast.Subscript):
            try:
                base_ = self.ev(e.value)
            except Unsupported:
                base_ = None
            if isinstance(base_, AObj) and "__getitem__" in base_.methods:
                return base_.methods["__getitem__"](self.ev(e.slice))
        if isinstance(e, ast.Constant) and e.value is Ellipsis:
            return Ellipsis
        if isinstance(e, ast.Lambda):
            return Closure([a.arg for a in e.args.args], e.body, self.env, True)
        if isinstance(e, ast.Constant) and isinstance(e.value, str):
            return e.value
        if isinstance(e, ast.BinOp) and isinstance(e.op, ast.Add) and isinstance(e.left, ast.Constant) and isinstance(e.left.value, str):
            return "<message>"
        return super().ev(e)

    def call(self, c: ast.Call):
        fn = ast.unparse(c.func)
        if fn == "isinstance" and len(c.args) == 2:
            v = self.ev(c.args[0])
            types = []
            for t in (c.args[1].elts if isinstance(c.args[1], ast.Tuple) else [c.args[1]]):
                tn = ast.unparse(t)
                if tn in self.env or tn in self.consts:        # a class held in a variable / a table row
                    tv = self.ev(t)
                    tvs = list(tv) if isinstance(tv, (tuple, list)) else [tv]
                    if not all(isinstance(x_, ClassTok) for x_ in tvs):
                        raise Unsupported("isinstance(.., %s)" % tn)
                    types.extend(x_.dotted for x_ in tvs)
                else:
                    types.append(tn)
            if isinstance(v, AObj):
                return any(t in v.classes for t in types)
            if set(types) & {"list", "dict", "tuple", "List", "Dict", "Tuple", "Mapping", "Sequence"} or isinstance(v, (list, tuple, ADict)):
                from .dictsem import Tok as _Tok
                def one(t):
                    if t in ("list", "List"):
                        return isinstance(v, list)
                    if t in ("tuple", "Tuple"):
                        return isinstance(v, tuple)
                    if t in ("dict", "Dict", "Mapping"):
                        return isinstance(v, ADict)
                    if t == "Sequence":
                        return isinstance(v, (list, tuple))
                    if t in ("torch.Tensor", "Tensor"):
                        return isinstance(v, _Tok) and v.is_tensor
                    if t in ("int", "float", "str", "bool"):
                        return isinstance(v, {"int": int, "float": float, "str": str, "bool": bool}[t])
                    raise Unsupported("isinstance(.., %s)" % t)
                return any(one(t) for t in types)
        if fn in ("inspect.isfunction", "isfunction", "inspect.ismethod", "ismethod", "callable") and len(c.args) == 1:
            v = self.ev(c.args[0])
            if isinstance(v, AObj):
                if fn.endswith("isfunction"):
                    return v.isfunction
                if fn.endswith("ismethod"):
                    return v.ismethod
                return "__call__" in v.attrs
        if fn == "hasattr" and len(c.args) == 2:
            v = self.ev(c.args[0])
            a = self.ev(c.args[1])
            if a == "__dict__" and not isinstance(v, AObj):
                from .dictsem import Tok as _Tok
                # tensors, other objects and instances of subclasses of list / dict have one; plain lists, dicts, tuples, numbers do not
                return isinstance(v, _Tok) or (isinstance(v, (HeapList, HeapDict)) and v.xv_dict is not None)
            if isinstance(v, AObj) and isinstance(a, str):
                return a in v.attrs or ("%s.%s" % (ast.unparse(c.args[0]), a)) in self.env
        if fn == "id" and len(c.args) == 1 and not c.keywords:
            return ("id", id(self.ev(c.args[0])))          # object identity of the abstract value
        if fn == "set" and not c.args and not c.keywords:
            return ASet()                                    # a set of hashable abstract values (ids, strings, ints)
        if isinstance(c.func, ast.Attribute) and c.func.attr in ("add", "discard") and len(c.args) == 1 and not c.keywords:
            recv_s = self.ev(c.func.value)
            if isinstance(recv_s, ASet):
                v_s = self.ev(c.args[0])
                if c.func.attr == "add" and v_s not in recv_s:
                    recv_s.append(v_s)
                if c.func.attr == "discard" and v_s in recv_s:
                    recv_s.remove(v_s)
                return None
        if isinstance(c.func, ast.Attribute) and c.func.attr == "index" and len(c.args) == 1 and not c.keywords:
            recv_ = self.ev(c.func.value)
            if isinstance(recv_, (list, tuple)):
                k_ = self.ev(c.args[0])
                for i_, x_ in enumerate(recv_):
                    if x_ is k_ or (type(x_) is type(k_) and not isinstance(x_, AObj) and x_ == k_):
                        return i_
                raise Raised("ValueError: not in list")
        if fn == "getattr" and len(c.args) in (2, 3):
            v = self.ev(c.args[0])
            a = self.ev(c.args[1])
            if isinstance(v, AObj) and isinstance(a, str):
                if a in v.attrs:
                    return v.attrs[a]
                if len(c.args) == 3:
                    return self.ev(c.args[2])
                raise Raised("AttributeError %s.%s" % (v.name, a))
        if isinstance(c.func, ast.Attribute) and not c.keywords:
            try:
                recv = self.ev(c.func.value)
            except Unsupported:
                recv = None
            if isinstance(recv, AObj) and c.func.attr in recv.methods:
                argv = []
                for a in c.args:
                    if isinstance(a, ast.Starred):
                        v_ = self.ev(a.value)
                        if not isinstance(v_, (list, tuple)):
                            raise Unsupported("* of a non-sequence")
                        argv.extend(v_)
                    else:
                        argv.append(self.ev(a))
                return recv.methods[c.func.attr](*argv)
        if isinstance(c.func, ast.Attribute):
            try:
                recv = self.ev(c.func.value)
            except Unsupported:
                recv = None
            if c.func.attr in getattr(recv, "_xv_methods", ()):
                argv = []
                for a in c.args:
                    if isinstance(a, ast.Starred):
                        v_ = self.ev(a.value)
                        if not isinstance(v_, (list, tuple)):
                            raise Unsupported("* of a non-sequence")
                        argv.extend(v_)
                    else:
                        argv.append(self.ev(a))
                return getattr(recv, c.func.attr)(*argv, **{k.arg: self.ev(k.value) for k in c.keywords if k.arg})
        if fn == "zip" and len(c.args) == 1 and isinstance(c.args[0], ast.Starred) and not c.keywords:
            v = self.ev(c.args[0].value)
            if isinstance(v, (list, tuple)) and all(isinstance(x, (list, tuple)) for x in v):
                return [tuple(t_) for t_ in zip(*v)]
        if isinstance(c.func, ast.Attribute) and c.func.attr == "pop" and len(c.args) <= 1 and not c.keywords:
            recv_ = self.ev(c.func.value)
            if isinstance(recv_, list):
                k_ = self.ev(c.args[0]) if c.args else -1
                if not isinstance(k_, int) or not -len(recv_) <= k_ < len(recv_):
                    raise Raised("IndexError: pop")
                return recv_.pop(k_)
        if isinstance(c.func, ast.Name) and fn in self.functions and fn not in self.env and not c.keywords \
                and not any(isinstance(a, ast.Starred) for a in c.args):
            if self.depth > 12:
                raise Unsupported("recursion depth")
            fnode = self.functions[fn]
            ps = [a.arg for a in fnode.args.args]
            if (len(c.args) > len(ps) and not fnode.args.vararg) or fnode.args.kwarg or any(isinstance(a, ast.Starred) for a in c.args):
                raise Unsupported("call of %s" % fn)
            env = dict(zip(ps, [self.ev(a) for a in c.args[:len(ps)]]))
            if fnode.args.vararg:
                env[fnode.args.vararg.arg] = tuple(self.ev(a) for a in c.args[len(ps):])      # *rest receives the remaining positionals
            for p_, d_ in zip(ps[::-1], list(fnode.args.defaults)[::-1]):
                if p_ not in env:
                    env[p_] = self.ev(d_)
            if len(env) != len(ps) + (1 if fnode.args.vararg else 0):
                raise Unsupported("missing arguments of %s" % fn)
            sub = type(self)(env)
            sub.functions, sub.depth, sub.host, sub.records, sub.consts = self.functions, self.depth + 1, self.host, self.records, self.consts
            is_gen = any(isinstance(n_, (ast.Yield, ast.YieldFrom)) for st_ in fnode.body for n_ in ast.walk(st_)
                         if not isinstance(st_, (ast.FunctionDef, ast.ClassDef)))
            if is_gen:
                sub._yields = []          # a generator is evaluated eagerly: the list of what it yields (sound for pure traversals)
            try:
                sub.run(fnode.body)
            except _Return as r:
                return sub._yields if is_gen else r.v
            return sub._yields if is_gen else None
        if fn in self.host and not any(isinstance(a, ast.Starred) for a in c.args):
            return self.host[fn](*[self.ev(a) for a in c.args], **{k.arg: self.ev(k.value) for k in c.keywords if k.arg})
        if isinstance(c.func, ast.Name) and fn in self.records and not any(isinstance(a, ast.Starred) for a in c.args):
            return self.records[fn](*[self.ev(a) for a in c.args], **{k.arg: self.ev(k.value) for k in c.keywords if k.arg})
        last = fn.split(".")[-1]
        if isinstance(c.func, ast.Name) and type(self.env.get(fn)).__name__ in ("function", "builtin_function_or_method") and not c.keywords:
            return self.env[fn](*[self.ev(a) for a in c.args])        # a host stand-in for a collaborator whose contract another rule decides
        if isinstance(c.func, ast.Name) and isinstance(self.env.get(fn), Closure):
            return self.apply(self.env[fn], [self.ev(a) for a in c.args])
        if isinstance(c.func, (ast.Name, ast.Subscript)) and not any(isinstance(a, ast.Starred) for a in c.args):
            try:
                callee_ = self.ev(c.func) if (fn in self.env or isinstance(c.func, ast.Subscript)) else None
            except Unsupported:
                callee_ = None
            if isinstance(callee_, ClassTok):
                return ("made", callee_.dotted.split(".")[-1], tuple(self.ev(a) for a in c.args), tuple(sorted((k.arg, self.ev(k.value)) for k in c.keywords if k.arg)))
        if last[:1].isupper() and not last.endswith("Error") and last not in ("Exception",) and not any(isinstance(a, ast.Starred) for a in c.args):
            return ("made", last, tuple(self.ev(a) for a in c.args), tuple(sorted((k.arg, self.ev(k.value)) for k in c.keywords if k.arg)))
        return super().call(c)

    def apply(self, clo: Closure, args):
        sub = KindInterp(dict(clo.env, **dict(zip(clo.params, args))))
        if clo.is_expr:
            return sub.ev(clo.body)
        try:
            sub.run(clo.body)
        except _Return as r:
            return r.v
        return None

    _yields = None

    def run(self, stmts):
        rest = []
        for s in stmts:
            if self._yields is not None and isinstance(s, ast.Expr) and isinstance(s.value, (ast.Yield, ast.YieldFrom)):
                if rest:
                    super().run(rest)
                    rest = []
                v = self.ev(s.value.value) if s.value.value is not None else None
                if isinstance(s.value, ast.YieldFrom):
                    if not isinstance(v, (list, tuple)):
                        raise Unsupported("yield from a non-sequence")
                    self._yields.extend(v)
                else:
                    self._yields.append(v)
                continue
            if self._yields is not None and isinstance(s, (ast.If, ast.For)) and any(isinstance(n_, (ast.Yield, ast.YieldFrom)) for n_ in ast.walk(s)):
                # control flow around yields: evaluate it here so that nested yields reach this interpreter
                if rest:
                    super().run(rest)
                    rest = []
                if isinstance(s, ast.If):
                    self.run(s.body if self.truth(s.test) else s.orelse)
                else:
                    for item in self.iterate(s.iter):
                        self.bind(s.target, item)
                        self.run(s.body)
                continue
            if isinstance(s, (ast.FunctionDef,)):
                if rest:
                    super().run(rest)
                    rest = []
                if s.decorator_list:
                    raise Unsupported("decorated nested function")
                self.env[s.name] = Closure([a.arg for a in s.args.args], s.body, self.env, False)
                continue
            rest.append(s)
        if rest:
            super().run(rest)


def module_consts(tree: ast.Module) -> Dict[str, ast.AST]:
    """module-level `NAME = <expr>` bindings (single assignment only): tables and aliases a function may consult"""
    seen: Dict[str, list] = {}
    for st in tree.body:
        if isinstance(st, ast.Assign) and len(st.targets) == 1 and isinstance(st.targets[0], ast.Name):
            seen.setdefault(st.targets[0].id, []).append(st.value)
        elif isinstance(st, ast.AnnAssign) and isinstance(st.target, ast.Name) and st.value is not None:
            seen.setdefault(st.target.id, []).append(st.value)
    return {k: v[0] for k, v in seen.items() if len(v) == 1}


def outcome(fnode: ast.FunctionDef, env: Dict[str, Any], consts: Optional[Dict[str, ast.AST]] = None) -> Tuple[str, Any]:
    """('returned', value) | ('raised', what); Unsupported propagates"""
    it = KindInterp(env)
    if consts:
        it.consts = consts
    try:
        it.run([s for s in fnode.body])
    except _Return as r:
        return "returned", r.v
    except Raised as e:
        return "raised", str(e)
    return "returned", None


def module_records(tree: ast.Module) -> Dict[str, Any]:
    """namedtuple types for the `class X(NamedTuple): a: int; b: ..` and `X = namedtuple("X", [...])` definitions of a module"""
    import collections
    out = {}
    for st in tree.body:
        if isinstance(st, ast.ClassDef) and any(ast.unparse(b).split(".")[-1] == "NamedTuple" for b in st.bases):
            fields = [x.target.id for x in st.body if isinstance(x, ast.AnnAssign) and isinstance(x.target, ast.Name)]
            defaults = [x for x in st.body if isinstance(x, ast.AnnAssign) and x.value is not None]
            if fields and not defaults:
                out[st.name] = collections.namedtuple(st.name, fields)
        elif isinstance(st, ast.Assign) and len(st.targets) == 1 and isinstance(st.targets[0], ast.Name) and isinstance(st.value, ast.Call) \
                and ast.unparse(st.value.func).split(".")[-1] == "namedtuple" and len(st.value.args) == 2:
            try:
                spec = ast.literal_eval(st.value.args[1])
                fields = spec.replace(",", " ").split() if isinstance(spec, str) else list(spec)
                out[st.targets[0].id] = collections.namedtuple(st.targets[0].id, fields)
            except Exception:
                pass
    return out
