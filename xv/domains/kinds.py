"""Abstract evaluation of dispatch code over *kinds* of arguments (nothing of the repository runs).

A dispatcher such as get_pure_function decides by predicates on its argument - isinstance(x, C), inspect.isfunction(x),
inspect.ismethod(x), hasattr(x, "__call__") - and builds a wrapper.  An `AObj` is an abstract argument that answers exactly those
predicates from a table; constructor calls are recorded as ("made", class name, args, kwargs).  The rule then compares, for every kind,
the outcome (made wrapper / returned token / raised) with what the contract demands - however the chain of tests is spelled."""
from __future__ import annotations
import ast
from typing import Any, Dict, Optional, Tuple
from .dictsem import DictInterp, Unsupported, Raised, _Return


class AObj:
    def __init__(self, name: str, classes=(), isfunction=False, ismethod=False, attrs: Optional[Dict[str, Any]] = None):
        self.name = name
        self.classes = set(classes)
        self.isfunction = isfunction
        self.ismethod = ismethod
        self.attrs = dict(attrs or {})
        self.methods: Dict[str, Any] = {}      # name -> host callable(*abstract args) -> abstract value (an uninterpreted collaborator)

    def __repr__(self):
        return "<%s>" % self.name


class Closure:
    def __init__(self, params, body, env, is_expr):
        self.params, self.body, self.env, self.is_expr = params, body, env, is_expr

    def __repr__(self):
        return "<closure>"


class KindInterp(DictInterp):
    def ev(self, e):
        if isinstance(e, ast.Attribute) and not ast.unparse(e) in self.env:
            try:
                v = self.ev(e.value)
            except Unsupported:
                v = None
            if isinstance(v, AObj):
                if e.attr in v.attrs:
                    return v.attrs[e.attr]
                raise Raised("AttributeError %s.%s" % (v.name, e.attr))
        if isinstance(e, ast.BinOp) and isinstance(e.op, ast.Mult):
            l_, r_ = self.ev(e.left), self.ev(e.right)
            if isinstance(l_, list) and isinstance(r_, int) and not isinstance(r_, bool):
                return l_ * r_
            if isinstance(r_, list) and isinstance(l_, int) and not isinstance(l_, bool):
                return r_ * l_
            if isinstance(l_, int) and isinstance(r_, int):
                return l_ * r_
            raise Unsupported(ast.unparse(e)[:60])
        if isinstance(e, ast.Lambda):
            return Closure([a.arg for a in e.args.args], e.body, self.env, True)
        if isinstance(e, ast.Constant) and isinstance(e.value, str):
            return e.value
        if isinstance(e, ast.BinOp) and isinstance(e.op, ast.Add) and isinstance(e.left, ast.Constant) and isinstance(e.left.value, str):
            return "<message>"
        return super().ev(e)

    def call(self, c: ast.Call):
        fn = ast.unparse(c.func)
        if fn == "isinstance" and len(c.args) == 2:
            v = self.ev(c.args[0])
            if isinstance(v, AObj):
                types = [ast.unparse(t) for t in (c.args[1].elts if isinstance(c.args[1], ast.Tuple) else [c.args[1]])]
                return any(t in v.classes for t in types)
        if fn in ("inspect.isfunction", "isfunction", "inspect.ismethod", "ismethod", "callable") and len(c.args) == 1:
            v = self.ev(c.args[0])
            if isinstance(v, AObj):
                if fn.endswith("isfunction"):
                    return v.isfunction
                if fn.endswith("ismethod"):
                    return v.ismethod
                return "__call__" in v.attrs
        if fn == "hasattr" and len(c.args) == 2:
            v = self.ev(c.args[0])
            a = self.ev(c.args[1])
            if isinstance(v, AObj) and isinstance(a, str):
                return a in v.attrs or ("%s.%s" % (ast.unparse(c.args[0]), a)) in self.env
        if fn == "id" and len(c.args) == 1 and not c.keywords:
            return ("id", id(self.ev(c.args[0])))          # object identity of the abstract value
        if isinstance(c.func, ast.Attribute) and c.func.attr == "index" and len(c.args) == 1 and not c.keywords:
            recv_ = self.ev(c.func.value)
            if isinstance(recv_, (list, tuple)):
                k_ = self.ev(c.args[0])
                for i_, x_ in enumerate(recv_):
                    if x_ is k_ or (type(x_) is type(k_) and not isinstance(x_, AObj) and x_ == k_):
                        return i_
                raise Raised("ValueError: not in list")
        if fn == "getattr" and len(c.args) in (2, 3):
            v = self.ev(c.args[0])
            a = self.ev(c.args[1])
            if isinstance(v, AObj) and isinstance(a, str):
                if a in v.attrs:
                    return v.attrs[a]
                if len(c.args) == 3:
                    return self.ev(c.args[2])
                raise Raised("AttributeError %s.%s" % (v.name, a))
        if isinstance(c.func, ast.Attribute) and not c.keywords and not any(isinstance(a, ast.Starred) for a in c.args):
            try:
                recv = self.ev(c.func.value)
            except Unsupported:
                recv = None
            if isinstance(recv, AObj) and c.func.attr in recv.methods:
                return recv.methods[c.func.attr](*[self.ev(a) for a in c.args])
        if fn == "zip" and len(c.args) == 1 and isinstance(c.args[0], ast.Starred) and not c.keywords:
            v = self.ev(c.args[0].value)
            if isinstance(v, (list, tuple)) and all(isinstance(x, (list, tuple)) for x in v):
                return [tuple(t_) for t_ in zip(*v)]
        last = fn.split(".")[-1]
        if isinstance(c.func, ast.Name) and type(self.env.get(fn)).__name__ in ("function", "builtin_function_or_method") and not c.keywords:
            return self.env[fn](*[self.ev(a) for a in c.args])        # a host stand-in for a collaborator whose contract another rule decides
        if isinstance(c.func, ast.Name) and isinstance(self.env.get(fn), Closure):
            return self.apply(self.env[fn], [self.ev(a) for a in c.args])
        if last[:1].isupper() and not last.endswith("Error") and last not in ("Exception",) and not any(isinstance(a, ast.Starred) for a in c.args):
            return ("made", last, tuple(self.ev(a) for a in c.args), tuple(sorted((k.arg, self.ev(k.value)) for k in c.keywords if k.arg)))
        return super().call(c)

    def apply(self, clo: Closure, args):
        sub = KindInterp(dict(clo.env, **dict(zip(clo.params, args))))
        if clo.is_expr:
            return sub.ev(clo.body)
        try:
            sub.run(clo.body)
        except _Return as r:
            return r.v
        return None

    def run(self, stmts):
        rest = []
        for s in stmts:
            if isinstance(s, (ast.FunctionDef,)):
                if rest:
                    super().run(rest)
                    rest = []
                if s.decorator_list:
                    raise Unsupported("decorated nested function")
                self.env[s.name] = Closure([a.arg for a in s.args.args], s.body, self.env, False)
                continue
            rest.append(s)
        if rest:
            super().run(rest)


def outcome(fnode: ast.FunctionDef, env: Dict[str, Any]) -> Tuple[str, Any]:
    """('returned', value) | ('raised', what); Unsupported propagates"""
    it = KindInterp(env)
    try:
        it.run([s for s in fnode.body])
    except _Return as r:
        return "returned", r.v
    except Raised as e:
        return "raised", str(e)
    return "returned", None
