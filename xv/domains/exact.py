"""Exact-constant domain: literal expressions folded to `fractions.Fraction` from the *source text* of
the literals (so `1 / 6.` is 1/6 and `0.5` is 1/2, not their binary approximations), rooted trees and the
Runge-Kutta order conditions.  Nothing of the analysed code is executed."""
from __future__ import annotations
import ast
from decimal import Decimal
from fractions import Fraction
from functools import lru_cache
from itertools import product
from typing import List, Tuple, Optional


class NotFoldable(Exception):
    pass


def fold(node: ast.AST, source: str, env=None) -> Fraction:
    """Fold a literal arithmetic expression.  `env` maps names to already folded values."""
    env = env or {}
    if isinstance(node, ast.Constant):
        if isinstance(node.value, bool) or not isinstance(node.value, (int, float)):
            raise NotFoldable("non-numeric constant %r" % (node.value,))
        seg = ast.get_source_segment(source, node)
        if seg is None:
            return Fraction(Decimal(repr(node.value)))
        seg = seg.replace("_", "")
        try:
            return Fraction(Decimal(seg))
        except Exception:
            return Fraction(Decimal(repr(node.value)))
    if isinstance(node, ast.UnaryOp) and isinstance(node.op, (ast.USub, ast.UAdd)):
        v = fold(node.operand, source, env)
        return -v if isinstance(node.op, ast.USub) else v
    if isinstance(node, ast.BinOp):
        a, b = fold(node.left, source, env), fold(node.right, source, env)
        if isinstance(node.op, ast.Add):
            return a + b
        if isinstance(node.op, ast.Sub):
            return a - b
        if isinstance(node.op, ast.Mult):
            return a * b
        if isinstance(node.op, ast.Div):
            if b == 0:
                raise NotFoldable("division by zero literal")
            return a / b
        if isinstance(node.op, ast.Pow) and b.denominator == 1 and abs(b) < 64:
            return a ** int(b)
        raise NotFoldable("operator %s" % type(node.op).__name__)
    if isinstance(node, ast.Name) and node.id in env:
        return env[node.id]
    raise NotFoldable("not a literal expression: %s" % ast.unparse(node))


def fold_nested(node: ast.AST, source: str):
    """Fold a (nested) list/tuple of literal expressions; `torch.tensor(<list>, ...)`/`np.array(<list>)` wrappers
    are looked through."""
    if isinstance(node, ast.Call) and node.args and ast.unparse(node.func) in (
            "torch.tensor", "torch.as_tensor", "np.array", "np.asarray", "numpy.array", "torch.Tensor"):
        return fold_nested(node.args[0], source)
    if isinstance(node, (ast.List, ast.Tuple)):
        return [fold_nested(e, source) for e in node.elts]
    return fold(node, source)


# ------------------------------------------------------------------------------ rooted trees
Tree = Tuple  # a rooted tree is the sorted tuple of its children


@lru_cache(maxsize=None)
def trees(n: int) -> Tuple[Tree, ...]:
    """All rooted trees with n vertices (1, 1, 2, 4, 9, 20, 48, ...)."""
    if n == 1:
        return ((),)
    res = set()

    def parts(m, maxp):
        if m == 0:
            yield []
            return
        for p in range(min(m, maxp), 0, -1):
            for rest in parts(m - p, p):
                yield [p] + rest
    for part in parts(n - 1, n - 1):
        for combo in product(*[trees(p) for p in part]):
            res.add(tuple(sorted(combo)))
    return tuple(sorted(res))


def order(t: Tree) -> int:
    return 1 + sum(order(c) for c in t)


def gamma(t: Tree) -> int:
    g = order(t)
    for c in t:
        g *= gamma(c)
    return g


def tree_str(t: Tree) -> str:
    return "[" + "".join(tree_str(c) for c in t) + "]" if t else "."


def elementary_weight(t: Tree, A: List[List[Fraction]], b: List[Fraction]) -> Fraction:
    s = len(b)
    memo = {}

    def phi(tr, i):
        key = (tr, i)
        if key in memo:
            return memo[key]
        r = Fraction(1)
        for c in tr:
            r *= sum((A[i][j] * phi(c, j) for j in range(len(A[i])) if A[i][j] != 0), Fraction(0))
            if r == 0:
                break
        memo[key] = r
        return r
    return sum((b[i] * phi(t, i) for i in range(s) if b[i] != 0), Fraction(0))


def failed_conditions(A, b, p: int, from_order: int = 1):
    """order conditions sum_i b_i Phi_i(t) = 1/gamma(t) for all trees with from_order <= |t| <= p that fail"""
    bad = []
    n = 0
    for k in range(from_order, p + 1):
        for t in trees(k):
            n += 1
            lhs = elementary_weight(t, A, b)
            rhs = Fraction(1, gamma(t))
            if lhs != rhs:
                bad.append((k, tree_str(t), lhs, rhs))
    return bad, n


def attained_order(A, b, maxp: int = 6) -> int:
    p = 0
    for k in range(1, maxp + 1):
        bad, _ = failed_conditions(A, b, k, from_order=k)
        if bad:
            break
        p = k
    return p
