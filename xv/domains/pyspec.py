"""Specialising evaluator: partial evaluation of a small Python function on *concrete* Python-level data (coefficient tables, their
lengths, loop bounds that become constants) with tensors, the time grid and the user's function left symbolic.

This is constant propagation + unrolling of loops whose iterables became concrete (lists, `range(3)`, `zip` of lists); nothing of the
repository is executed.  Tensor-valued quantities are polynomials over atoms (`poly.Rat`, element-wise semantics); a call of the user
function is an *uninterpreted atom* keyed by its (time, state) arguments up to polynomial equality.  One loop may have a symbolic
trip count (`for i in range(len(t) - 1)`): it is run once on a symbolic index with every loop-carried scalar replaced by a placeholder
`@prev:<name>` and the appends to outer lists recorded per iteration.  Anything outside this vocabulary raises `Uninterpretable`
(the caller reports *undecided*).  Used as the fall-back of C07-R when the size-parametric interpreter cannot read a restructured
stepper (helpers, `zip` over tableau rows, stage times precomputed as a 2-D tensor).
"""
from __future__ import annotations
import ast
from fractions import Fraction as Fr
from typing import Callable, Dict, List, Optional, Tuple
from .poly import Rat, C, S, Uninterpretable


class Rec:
    """record with named fields (NamedTuple instance)"""
    def __init__(self, fields: Dict[str, object]):
        self.fields = fields


class Opq:
    def __init__(self, what):
        self.what = what

    def __repr__(self):
        return "<%s>" % self.what


class Lazy:
    """array of symbolic scalars: index tuple (Rat per axis) -> Rat"""
    def __init__(self, ndim: int, fn: Callable[[Tuple[Rat, ...]], Rat], what="array", lens=None):
        self.ndim, self.fn, self.what = ndim, fn, what
        self.lens = lens or [None] * ndim


class RecList(list):
    """an outer list inside the symbolic loop: appends of the symbolic iteration are recorded separately"""
    def __init__(self, items):
        super().__init__(items)
        self.per_iter: List[object] = []
        self.recording = False

    def append(self, v):
        if self.recording:
            self.per_iter.append(v)
        else:
            super().append(v)


class _Return(Exception):
    def __init__(self, v):
        self.v = v


def _num(v) -> Rat:
    if isinstance(v, Rat):
        return v
    if isinstance(v, bool):
        raise Uninterpretable("a boolean used as a number")
    if isinstance(v, (int, Fr)):
        return C(Fr(v))
    if isinstance(v, float):
        return C(Fr(repr(v)))
    raise Uninterpretable("not a number: %r" % (v,))


def _conc(v):
    """concrete python number of a value, or None"""
    if isinstance(v, bool):
        return v
    if isinstance(v, (int, Fr)):
        return v
    if isinstance(v, Rat):
        if not v.symbols():
            try:
                from .fragment import Frag
                c = Frag.const_of(v)
                return c
            except Exception:
                return None
    return None


class Spec:
    def __init__(self, resolve_func: Callable[[ast.AST], Optional[ast.FunctionDef]], user_fn_names=("fcn",), source: Optional[str] = None):
        self.resolve_func = resolve_func
        self.fcalls: List[Tuple[Rat, Rat, str]] = []      # (time, state, atom name)
        self.frest: List[List[object]] = []
        self.user_fn = Opq("user function")
        self.sym_loops: List[dict] = []
        self.grid_reads: List[Rat] = []
        self.source = source
        self.depth = 0

    # ---------------------------------------------------------------- user function atoms
    def fatom(self, tm: Rat, st: Rat) -> Rat:
        for (t0, s0, name) in self.fcalls:
            if t0.eq(tm) and s0.eq(st):
                return S(name)
        name = "F%d" % len(self.fcalls)
        self.fcalls.append((tm, st, name))
        return S(name)

    def grid(self, name="t") -> Lazy:
        def fn(idx):
            self.grid_reads.append(idx[0])
            return S("%s[%r]" % (name, idx[0]))
        return Lazy(1, fn, "grid", [S("len(%s)" % name)])

    # ---------------------------------------------------------------- calls of repository functions
    def call_function(self, fnode: ast.FunctionDef, args: List[object], kwargs: Dict[str, object]):
        if self.depth > 6:
            raise Uninterpretable("helper recursion too deep")
        a = fnode.args
        if a.vararg or a.kwarg or a.posonlyargs:
            raise Uninterpretable("helper %s with star parameters" % fnode.name)
        names = [x.arg for x in a.args]
        env: Dict[str, object] = {}
        if len(args) > len(names):
            raise Uninterpretable("too many arguments for %s" % fnode.name)
        for n, v in zip(names, args):
            env[n] = v
        for k, v in kwargs.items():
            if k not in names or k in env:
                raise Uninterpretable("bad keyword %s for %s" % (k, fnode.name))
            env[k] = v
        defaults = a.defaults
        for n, d in zip(names[len(names) - len(defaults):], defaults):
            if n not in env:
                env[n] = self.ev(d, {})
        for x, d in zip(a.kwonlyargs, a.kw_defaults):
            env[x.arg] = kwargs.get(x.arg, self.ev(d, {}) if d is not None else None)
        if any(n not in env for n in names):
            raise Uninterpretable("missing argument for %s" % fnode.name)
        self.depth += 1
        try:
            self.run(fnode.body, env)
        except _Return as r:
            return r.v
        finally:
            self.depth -= 1
        return None

    # ---------------------------------------------------------------- statements
    def run(self, stmts, env):
        for s in stmts:
            self.stmt(s, env)

    def bind(self, tgt, val, env):
        if isinstance(tgt, ast.Name):
            env[tgt.id] = val
        elif isinstance(tgt, (ast.Tuple, ast.List)):
            if isinstance(val, Rec):
                val = list(val.fields.values())
            if not isinstance(val, (list, tuple)) or len(val) != len(tgt.elts) or any(isinstance(e, ast.Starred) for e in tgt.elts):
                raise Uninterpretable("cannot unpack %r" % (val,))
            for e, v in zip(tgt.elts, val):
                self.bind(e, v, env)
        elif isinstance(tgt, ast.Subscript):
            base = self.ev(tgt.value, env)
            idx = self.ev(tgt.slice, env)
            if isinstance(base, list) and isinstance(idx, int) and not isinstance(base, RecList):
                base[idx] = val
            else:
                raise Uninterpretable("store into %s" % ast.unparse(tgt))
        else:
            raise Uninterpretable("assignment target %s" % ast.unparse(tgt))

    def stmt(self, s, env):
        if isinstance(s, ast.Assign):
            v = self.ev(s.value, env)
            for t in s.targets:
                self.bind(t, v, env)
        elif isinstance(s, ast.AnnAssign):
            if s.value is not None:
                self.bind(s.target, self.ev(s.value, env), env)
        elif isinstance(s, ast.AugAssign):
            cur = self.ev(ast.copy_location(ast.Name(id=s.target.id, ctx=ast.Load()), s.target), env) if isinstance(s.target, ast.Name) else None
            if cur is None:
                raise Uninterpretable("augmented assignment to %s" % ast.unparse(s.target))
            self.bind(s.target, self.binop(s.op, cur, self.ev(s.value, env)), env)
        elif isinstance(s, ast.Expr):
            if isinstance(s.value, ast.Constant):
                return
            self.ev(s.value, env)
        elif isinstance(s, ast.Return):
            raise _Return(self.ev(s.value, env) if s.value is not None else None)
        elif isinstance(s, ast.If):
            t = self.truth(self.ev(s.test, env), s.test)
            self.run(s.body if t else s.orelse, env)
        elif isinstance(s, ast.For):
            if s.orelse:
                raise Uninterpretable("for-else")
            it = self.ev(s.iter, env)
            if isinstance(it, tuple) and it and it[0] == "symrange":
                self.sym_loop(s, it, env)
                return
            for v in self.iterate(it):
                self.bind(s.target, v, env)
                try:
                    self.run(s.body, env)
                except _Break:
                    break
                except _Continue:
                    continue
        elif isinstance(s, ast.Pass):
            return
        elif isinstance(s, ast.Break):
            raise _Break()
        elif isinstance(s, ast.Continue):
            raise _Continue()
        elif isinstance(s, ast.Assert):
            return
        elif isinstance(s, ast.With):
            # torch.no_grad() and friends: value-neutral
            for it in s.items:
                nm = ast.unparse(it.context_expr)
                if not nm.startswith(("torch.no_grad", "torch.enable_grad", "torch.set_grad_enabled")):
                    raise Uninterpretable("with %s" % nm)
            self.run(s.body, env)
        else:
            raise Uninterpretable("statement %s" % type(s).__name__)

    def sym_loop(self, s: ast.For, it, env):
        if self.sym_loops:
            raise Uninterpretable("a second loop with a symbolic trip count")
        if not isinstance(s.target, ast.Name):
            raise Uninterpretable("symbolic loop with a pattern target")
        _, lo, hi, step = it
        sym = "$i"
        assigned = {n.id for b in s.body for n in ast.walk(b) if isinstance(n, ast.Name) and isinstance(n.ctx, ast.Store)}
        carried = {}
        for k in sorted(assigned):
            if k in env and isinstance(env[k], (Rat, int, Fr, float)) and not isinstance(env[k], bool):
                carried[k] = env[k]
                env[k] = S("@prev:%s" % k)
        outer_lists = [v for v in env.values() if isinstance(v, RecList)]
        grown = {n.func.value.id for b in s.body for n in ast.walk(b) if isinstance(n, ast.Call) and isinstance(n.func, ast.Attribute)
                 and n.func.attr in ("append", "extend", "insert") and isinstance(n.func.value, ast.Name)} | \
                {n.target.id for b in s.body for n in ast.walk(b) if isinstance(n, ast.AugAssign) and isinstance(n.target, ast.Name)}
        for k, v in list(env.items()):
            if isinstance(v, list) and not isinstance(v, RecList) and k in grown:
                rl = RecList(v)
                env[k] = rl
                outer_lists.append(rl)
        for rl in outer_lists:
            rl.recording = True
        env[s.target.id] = lo + S(sym) * step if not (lo.eq(C(0)) and step.eq(C(1))) else S(sym)
        try:
            self.run(s.body, env)
        except (_Break, _Continue):
            raise Uninterpretable("break / continue in the loop with a symbolic trip count")
        for rl in outer_lists:
            rl.recording = False
        after = {k: env.get(k) for k in carried}
        self.sym_loops.append(dict(node=s, lo=lo, hi=hi, step=step, carried_init=carried, after_body=after,
                                   lists=outer_lists))
        for k in carried:
            env[k] = S("@after:%s" % k)
        for k in assigned - set(carried):
            if k in env and not isinstance(env[k], RecList):
                env[k] = Opq("value of %s after the loop" % k)

    def iterate(self, it):
        if isinstance(it, (list, tuple)):
            return list(it)
        if isinstance(it, range):
            return list(it)
        if isinstance(it, Rec):
            return list(it.fields.values())
        raise Uninterpretable("iteration over %r" % (it,))

    def truth(self, v, node=None):
        if isinstance(v, bool):
            return v
        if isinstance(v, (int, Fr)):
            return v != 0
        if isinstance(v, (list, tuple)) and not isinstance(v, RecList):
            return len(v) > 0
        if v is None:
            return False
        c = _conc(v)
        if c is not None:
            return c != 0
        raise Uninterpretable("test not decided by the specialisation: %s" % (ast.unparse(node) if node is not None else v))

    # ---------------------------------------------------------------- expressions
    def binop(self, op, a, b):
        if isinstance(a, (int, Fr)) and isinstance(b, (int, Fr)) and not isinstance(a, bool) and not isinstance(b, bool):
            if isinstance(op, ast.Add):
                return a + b
            if isinstance(op, ast.Sub):
                return a - b
            if isinstance(op, ast.Mult):
                return a * b
            if isinstance(op, ast.Div):
                if b == 0:
                    raise Uninterpretable("division by zero")
                return Fr(a) / Fr(b)
            if isinstance(op, ast.FloorDiv) and isinstance(a, int) and isinstance(b, int) and b:
                return a // b
            if isinstance(op, ast.Mod) and isinstance(a, int) and isinstance(b, int) and b:
                return a % b
            if isinstance(op, ast.Pow) and isinstance(b, int) and b >= 0:
                return a ** b
        if isinstance(op, ast.Add) and isinstance(a, list) and isinstance(b, list) and not isinstance(a, RecList) and not isinstance(b, RecList):
            return a + b
        if isinstance(op, ast.Mult) and isinstance(a, list) and isinstance(b, int) and not isinstance(a, RecList):
            return [x for _ in range(b) for x in a]
        if isinstance(a, Lazy) or isinstance(b, Lazy):
            return self.lazy_binop(op, a, b)
        x, y = _num(a), _num(b)
        if isinstance(op, ast.Add):
            return x + y
        if isinstance(op, ast.Sub):
            return x - y
        if isinstance(op, ast.Mult):
            return x * y
        if isinstance(op, ast.Div):
            if y.is_zero():
                raise Uninterpretable("division by zero")
            return x / y
        if isinstance(op, ast.Pow):
            k = _conc(y)
            if isinstance(k, int) or (isinstance(k, Fr) and k.denominator == 1):
                return x ** int(k)
        raise Uninterpretable("operator %s" % type(op).__name__)

    def lazy_binop(self, op, a, b):
        na = a.ndim if isinstance(a, Lazy) else 0
        nb = b.ndim if isinstance(b, Lazy) else 0
        n = max(na, nb)

        def fn(idx):
            va = a.fn(tuple(idx[n - na:])) if isinstance(a, Lazy) else a
            vb = b.fn(tuple(idx[n - nb:])) if isinstance(b, Lazy) else b
            return self.binop(op, va, vb)
        return Lazy(n, fn, "elementwise")

    def index_lazy(self, arr: Lazy, sl, env):
        elts = sl.elts if isinstance(sl, ast.Tuple) else [sl]
        nell = [k for k, e in enumerate(elts) if isinstance(e, ast.Constant) and e.value is Ellipsis]
        if len(nell) > 1:
            raise Uninterpretable("two ellipses")
        if nell:
            nexp = sum(1 for e in elts if not (isinstance(e, ast.Constant) and (e.value is None or e.value is Ellipsis)))
            fill = [ast.Slice(lower=None, upper=None, step=None)] * max(0, arr.ndim - nexp)
            elts = list(elts[:nell[0]]) + fill + list(elts[nell[0] + 1:])
        plan = []          # per source axis or new axis: ("idx", Rat) | ("slice", offset Rat) | ("new",)
        for e in elts:
            if isinstance(e, ast.Constant) and e.value is None:
                plan.append(("new",))
            elif isinstance(e, ast.Slice):
                if e.step is not None:
                    raise Uninterpretable("strided slice of a symbolic array")
                lo = self.ev(e.lower, env) if e.lower is not None else 0
                lo = _conc(lo) if not isinstance(lo, int) else lo
                if not isinstance(lo, int) or lo < 0:
                    raise Uninterpretable("slice start %s" % ast.unparse(e))
                plan.append(("slice", C(lo)))
            else:
                plan.append(("idx", self.ev(e, env)))
        nsrc = sum(1 for p in plan if p[0] != "new")
        if nsrc > arr.ndim:
            raise Uninterpretable("too many indices")
        plan += [("slice", C(0))] * (arr.ndim - nsrc)
        out_axes = [p for p in plan if p[0] in ("slice", "new")]

        def resolve_idx(v, axis_len):
            c = _conc(v) if not isinstance(v, int) else v
            if isinstance(c, int) and c < 0:
                if axis_len is None:
                    raise Uninterpretable("negative index on an axis of unknown length")
                return axis_len + C(c)
            return _num(v)

        def fn(idx):
            src, oi, ai = [], 0, 0
            for p in plan:
                if p[0] == "new":
                    oi += 1
                elif p[0] == "slice":
                    src.append(idx[oi] + p[1])
                    oi += 1
                    ai += 1
                else:
                    src.append(resolve_idx(p[1], arr.lens[ai]))
                    ai += 1
            return arr.fn(tuple(src))
        if not out_axes:
            return fn(())
        return Lazy(len(out_axes), fn, "view")

    def ev(self, e, env):
        if e is None:
            return None
        if isinstance(e, ast.Constant):
            v = e.value
            if isinstance(v, float):
                txt = ast.get_source_segment(self.source, e) if self.source else None
                try:
                    return Fr(txt) if txt else Fr(repr(v))
                except (ValueError, TypeError):
                    return Fr(repr(v))
            return v
        if isinstance(e, ast.Name):
            if e.id in env:
                return env[e.id]
            if e.id in ("True", "False", "None"):
                return {"True": True, "False": False, "None": None}[e.id]
            g = self.globals_lookup(e)
            if g is not None:
                return g
            raise Uninterpretable("unknown name %s" % e.id)
        if isinstance(e, ast.BinOp):
            return self.binop(e.op, self.ev(e.left, env), self.ev(e.right, env))
        if isinstance(e, ast.UnaryOp):
            v = self.ev(e.operand, env)
            if isinstance(e.op, ast.Not):
                return not self.truth(v, e.operand)
            if isinstance(e.op, ast.USub):
                return -v if isinstance(v, (int, Fr)) and not isinstance(v, bool) else C(0) - _num(v)
            if isinstance(e.op, ast.UAdd):
                return v
            raise Uninterpretable("unary operator")
        if isinstance(e, ast.BoolOp):
            vals = [self.truth(self.ev(x, env), x) for x in e.values]
            return all(vals) if isinstance(e.op, ast.And) else any(vals)
        if isinstance(e, ast.Compare):
            left = self.ev(e.left, env)
            for op, r in zip(e.ops, e.comparators):
                right = self.ev(r, env)
                if isinstance(op, (ast.Is, ast.IsNot)):
                    res = (left is right) or (left is None and right is None)
                    if isinstance(op, ast.IsNot):
                        res = not res
                else:
                    a, b = (left if isinstance(left, (int, Fr)) else _conc(left)), (right if isinstance(right, (int, Fr)) else _conc(right))
                    if a is None or b is None:
                        raise Uninterpretable("comparison not decided by the specialisation: %s" % ast.unparse(e))
                    res = {ast.Eq: a == b, ast.NotEq: a != b, ast.Lt: a < b, ast.LtE: a <= b, ast.Gt: a > b, ast.GtE: a >= b}.get(type(op))
                    if res is None:
                        raise Uninterpretable("comparison %s" % ast.unparse(e))
                if not res:
                    return False
                left = right
            return True
        if isinstance(e, ast.IfExp):
            return self.ev(e.body if self.truth(self.ev(e.test, env), e.test) else e.orelse, env)
        if isinstance(e, (ast.List, ast.Tuple)):
            out = []
            for x in e.elts:
                if isinstance(x, ast.Starred):
                    out.extend(self.iterate(self.ev(x.value, env)))
                else:
                    out.append(self.ev(x, env))
            return out if isinstance(e, ast.List) else tuple(out)
        if isinstance(e, (ast.ListComp, ast.GeneratorExp)):
            if len(e.generators) != 1 or e.generators[0].is_async:
                raise Uninterpretable("nested comprehension")
            g = e.generators[0]
            out = []
            sub = dict(env)
            for v in self.iterate(self.ev(g.iter, env)):
                self.bind(g.target, v, sub)
                if all(self.truth(self.ev(c, sub), c) for c in g.ifs):
                    out.append(self.ev(e.elt, sub))
            return out
        if isinstance(e, ast.Attribute):
            base = self.ev(e.value, env)
            if isinstance(base, Rec) and e.attr in base.fields:
                return base.fields[e.attr]
            if e.attr in ("dtype", "device", "shape", "ndim"):
                if isinstance(base, Lazy) and e.attr == "shape":
                    return tuple(base.lens)
                return Opq(ast.unparse(e))
            return ("attr", base, e.attr)
        if isinstance(e, ast.Subscript):
            base = self.ev(e.value, env)
            if isinstance(base, Lazy):
                return self.index_lazy(base, e.slice, env)
            if isinstance(base, (list, tuple)) and not isinstance(base, RecList):
                if isinstance(e.slice, ast.Slice):
                    lo, hi, st = (self.ev(x, env) for x in (e.slice.lower, e.slice.upper, e.slice.step))
                    if not all(x is None or isinstance(x, int) for x in (lo, hi, st)):
                        raise Uninterpretable("slice bounds of %s" % ast.unparse(e))
                    return base[lo:hi:st]
                i = self.ev(e.slice, env)
                i = i if isinstance(i, int) else _conc(i)
                if isinstance(i, Fr) and i.denominator == 1:
                    i = int(i)
                if not isinstance(i, int):
                    raise Uninterpretable("list index %s is not concrete" % ast.unparse(e.slice))
                if not (-len(base) <= i < len(base)):
                    raise Uninterpretable("index %d out of range in %s" % (i, ast.unparse(e)))
                return base[i]
            if isinstance(base, Rat):
                # element-wise semantics: a subscript of a state tensor that keeps every element
                if isinstance(e.slice, ast.Constant) and e.slice.value is Ellipsis:
                    return base
            raise Uninterpretable("subscript %s" % ast.unparse(e))
        if isinstance(e, ast.Call):
            return self.call(e, env)
        if isinstance(e, ast.Lambda):
            raise Uninterpretable("lambda")
        raise Uninterpretable("expression %s" % type(e).__name__)

    def globals_lookup(self, e: ast.Name):
        return None

    def args_of(self, c: ast.Call, env):
        args, kwargs = [], {}
        for a in c.args:
            if isinstance(a, ast.Starred):
                v = self.ev(a.value, env)
                if isinstance(v, Opq):
                    args.append(("star", v))
                else:
                    args.extend(self.iterate(v))
            else:
                args.append(self.ev(a, env))
        for k in c.keywords:
            if k.arg is None:
                raise Uninterpretable("**mapping argument")
            kwargs[k.arg] = self.ev(k.value, env)
        return args, kwargs

    def call(self, c: ast.Call, env):
        f = c.func
        fn = ast.unparse(f)
        # the user function
        if isinstance(f, ast.Name) and env.get(f.id) is self.user_fn:
            args, kwargs = self.args_of(c, env)
            if len(args) < 2 or kwargs or any(isinstance(a, tuple) and a and a[0] == "star" for a in args[:2]):
                raise Uninterpretable("user function call without explicit (t, y): %s" % ast.unparse(c))
            self.frest.append(args[2:])
            return self.fatom(_num(args[0]), _num(args[1]))
        if isinstance(f, ast.Attribute):
            recv_attr = f.attr
            if recv_attr == "append" and not c.keywords and len(c.args) == 1:
                base = self.ev(f.value, env)
                if isinstance(base, list):
                    base.append(self.ev(c.args[0], env))
                    return None
            if recv_attr in ("clone", "contiguous") and not c.args:
                return self.ev(f.value, env)
            if recv_attr == "unsqueeze" and len(c.args) == 1 and not c.keywords:
                base = self.ev(f.value, env)
                k = self.ev(c.args[0], env)
                if isinstance(base, Lazy) and isinstance(k, int):
                    k = k if k >= 0 else base.ndim + 1 + k
                    if 0 <= k <= base.ndim:
                        return Lazy(base.ndim + 1, lambda idx, base=base, k=k: base.fn(tuple(idx[:k]) + tuple(idx[k + 1:])), "unsqueeze",
                                    base.lens[:k] + [C(1)] + base.lens[k:])
        if fn == "len" and len(c.args) == 1:
            v = self.ev(c.args[0], env)
            if isinstance(v, RecList):
                raise Uninterpretable("len of a list that grows in the symbolic loop")
            if isinstance(v, (list, tuple)):
                return len(v)
            if isinstance(v, Rec):
                return len(v.fields)
            if isinstance(v, Lazy) and v.lens[0] is not None:
                return v.lens[0]
            raise Uninterpretable("len of %r" % (v,))
        if fn == "range":
            args = [self.ev(a, env) for a in c.args]
            if all(isinstance(a, int) for a in args):
                return range(*args)
            if len(args) <= 3:
                lo, hi, st = (C(0), _num(args[0]), C(1)) if len(args) == 1 else (_num(args[0]), _num(args[1]), _num(args[2]) if len(args) == 3 else C(1))
                return ("symrange", lo, hi, st)
        if fn in ("zip", "enumerate", "list", "tuple", "reversed", "sum", "float", "int", "min", "max"):
            args = [self.ev(a, env) for a in c.args]
            if fn == "zip":
                return list(zip(*[self.iterate(a) for a in args]))
            if fn == "enumerate":
                start = args[1] if len(args) > 1 else next((self.ev(k.value, env) for k in c.keywords if k.arg == "start"), 0)
                return [(i + start, v) for i, v in enumerate(self.iterate(args[0]))]
            if fn in ("list", "tuple"):
                seq = self.iterate(args[0]) if args else []
                return list(seq) if fn == "list" else tuple(seq)
            if fn == "reversed":
                return list(reversed(self.iterate(args[0])))
            if fn == "sum":
                acc = args[1] if len(args) > 1 else 0
                for v in self.iterate(args[0]):
                    acc = self.binop(ast.Add(), acc, v)
                return acc
            if fn in ("float", "int") and len(args) == 1 and isinstance(args[0], (int, Fr)):
                return args[0] if fn == "float" or isinstance(args[0], int) else None
        if fn in ("torch.stack",) and c.args:
            v = self.ev(c.args[0], env)
            dim = [k.value for k in c.keywords if k.arg == "dim"] or list(c.args[1:2])
            if isinstance(v, list) and ((not dim) or (isinstance(dim[0], ast.Constant) and dim[0].value == 0)):
                return v
            raise Uninterpretable("torch.stack along a non-leading dimension")
        if fn == "torch.diff" and len(c.args) == 1 and not c.keywords:
            v = self.ev(c.args[0], env)
            if isinstance(v, Lazy) and v.ndim == 1:
                return Lazy(1, lambda idx, v=v: v.fn((idx[0] + C(1),)) - v.fn((idx[0],)), "diff",
                            [v.lens[0] - C(1) if v.lens[0] is not None else None])
        if fn in ("torch.tensor", "torch.as_tensor") and c.args:
            v = self.ev(c.args[0], env)
            if isinstance(v, (list, tuple)) and all(isinstance(x, (int, Fr)) for x in v):
                vals = list(v)

                def fn1(idx, vals=vals):
                    i = _conc(idx[0])
                    if isinstance(i, Fr) and i.denominator == 1:
                        i = int(i)
                    if not isinstance(i, int) or not (0 <= i < len(vals)):
                        raise Uninterpretable("constant vector indexed with a non-concrete index")
                    return C(Fr(vals[i]))
                return Lazy(1, fn1, "constant vector", [C(len(vals))])
            if isinstance(v, (Rat, Lazy)):
                return v
        if fn in ("torch.zeros_like",) and c.args:
            return C(0)
        if fn in ("torch.result_type",):
            return Opq(fn)
        # repository helper
        tgt = self.resolve_func(f)
        if tgt is not None:
            args, kwargs = self.args_of(c, env)
            return self.call_function(tgt, args, kwargs)
        raise Uninterpretable("call %s" % ast.unparse(c)[:70])


class _Break(Exception):
    pass


class _Continue(Exception):
    pass
