"""Abstract evaluation of small dictionary-manipulating helpers (set_default_option and friends).

The helper's body is interpreted over a finite abstract domain: dictionaries whose keys are a handful of symbolic key
tokens and whose values are symbolic value tokens (plus None); every dictionary object carries an identity and a
`mutated` mark.  Only the dictionary vocabulary is interpreted (copy / dict / {**a, **b} / update / setdefault / item
store / loops over items / membership and None tests); anything else is `Unsupported` (undecided).  The verdict of a
rule is then a comparison of the returned abstract dictionary with the specification on every scenario - independent
of how the body is spelled."""
from __future__ import annotations
import ast
from typing import Dict, List, Optional, Any


class Unsupported(Exception):
    pass


class ADict:
    _n = 0

    def __init__(self, data: Dict[str, Any], label: str):
        self.data = dict(data)
        self.label = label
        self.mutated = False
        ADict._n += 1
        self.ident = ADict._n

    def copy(self, label="copy"):
        return ADict(self.data, label)

    def __repr__(self):
        return "%s%s" % (self.label, self.data)


class Raised(Exception):
    """the interpreted code raised an exception"""


class CallableToken:
    """stands for a caller-supplied callable object"""
    def __repr__(self):
        return "<callable>"


class OtherToken:
    """stands for a value that is neither a string nor callable (e.g. an int)"""
    def __repr__(self):
        return "<other>"


class Tok:
    """a symbolic element: a tensor (requiring grad or not) or a non-tensor"""
    def __init__(self, name, is_tensor=False, requires_grad=False):
        self.name, self.is_tensor, self.requires_grad = name, is_tensor, requires_grad

    def __repr__(self):
        return self.name


class AIter:
    """a stateful iterator over a list (for `it = iter(xs); a = next(it); b = next(it)`)"""
    def __init__(self, items):
        self.items = list(items)
        self.pos = 0


class _Return(Exception):
    def __init__(self, v):
        self.v = v


class _Break(Exception):
    pass


class _Continue(Exception):
    pass


class DictInterp:
    def __init__(self, env: Dict[str, Any]):
        self.env = dict(env)

    # ---------------------------------------------------------------- expressions
    def ev(self, e):
        if isinstance(e, ast.Constant):
            return e.value
        if isinstance(e, ast.Name):
            if e.id in self.env:
                return self.env[e.id]
            raise Unsupported("name %s" % e.id)
        if isinstance(e, ast.Dict):
            out = ADict({}, "literal")
            for k, v in zip(e.keys, e.values):
                if k is None:
                    src = self.ev(v)
                    if not isinstance(src, ADict):
                        raise Unsupported("** of a non-dict")
                    out.data.update(src.data)
                else:
                    out.data[self.ev(k)] = self.ev(v)
            return out
        if isinstance(e, (ast.Tuple, ast.List)):
            out_ = []
            for x in e.elts:
                if isinstance(x, ast.Starred):
                    v_ = self.ev(x.value)
                    out_.extend(v_.items[v_.pos:] if isinstance(v_, AIter) else list(v_))
                else:
                    out_.append(self.ev(x))
            return tuple(out_) if isinstance(e, ast.Tuple) else out_
        if isinstance(e, ast.Attribute) and ast.unparse(e) in self.env:
            return self.env[ast.unparse(e)]
        if isinstance(e, ast.Attribute) and e.attr == "requires_grad":
            v_ = self.ev(e.value)
            if isinstance(v_, Tok):
                return v_.requires_grad
        if isinstance(e, ast.BinOp) and isinstance(e.op, (ast.Add, ast.Sub)) and not (isinstance(e.left, ast.Constant) and isinstance(e.left.value, str)):
            l_, r_ = self.ev(e.left), self.ev(e.right)
            if isinstance(l_, (list, tuple)) and isinstance(r_, (list, tuple)) and isinstance(e.op, ast.Add):
                return type(l_)(list(l_) + list(r_))
            if isinstance(l_, int) and isinstance(r_, int) and not isinstance(l_, bool):
                return l_ + r_ if isinstance(e.op, ast.Add) else l_ - r_
            raise Unsupported(ast.unparse(e)[:60])
        if isinstance(e, ast.UnaryOp) and isinstance(e.op, ast.USub):
            v_ = self.ev(e.operand)
            if isinstance(v_, int):
                return -v_
            raise Unsupported(ast.unparse(e)[:60])
        if isinstance(e, ast.IfExp):
            return self.ev(e.body) if self.truth(e.test) else self.ev(e.orelse)
        if isinstance(e, ast.BoolOp):
            # value semantics: `a or b` is a if a is truthy else b; `a and b` is a if a is falsy else b
            v = None
            for k, sub in enumerate(e.values):
                v = self.ev(sub)
                if k == len(e.values) - 1:
                    return v
                t = self._truth_of_value(v)
                if (isinstance(e.op, ast.Or) and t) or (isinstance(e.op, ast.And) and not t):
                    return v
            return v
        if isinstance(e, ast.Compare) or (isinstance(e, ast.UnaryOp) and isinstance(e.op, ast.Not)):
            return self.truth(e)
        if isinstance(e, ast.Slice):
            b_ = [self.ev(x) if x is not None else None for x in (e.lower, e.upper, e.step)]
            if not all(x is None or isinstance(x, int) for x in b_):
                raise Unsupported("slice bounds")
            return slice(*b_)
        if isinstance(e, ast.Subscript):
            d, k = self.ev(e.value), self.ev(e.slice)
            if isinstance(d, ADict):
                if k not in d.data:
                    raise Raised("KeyError %r" % (k,))
                return d.data[k]
            if isinstance(d, (list, tuple)) and isinstance(k, int):
                if -len(d) <= k < len(d):
                    return d[k]
                raise Raised("IndexError")
            if isinstance(d, (list, tuple)) and isinstance(k, slice):
                return d[k]
            raise Unsupported(ast.unparse(e))
        if isinstance(e, ast.BinOp) and isinstance(e.op, ast.Mod) and isinstance(e.left, ast.Constant) and isinstance(e.left.value, str):
            return "<message>"
        if isinstance(e, ast.JoinedStr):
            return "<message>"
        if isinstance(e, (ast.ListComp, ast.GeneratorExp, ast.SetComp)):
            out_l = []

            def nest(k):
                if k == len(e.generators):
                    out_l.append(self.ev(e.elt))
                    return
                g = e.generators[k]
                for item in self.iterate(g.iter):
                    self.bind(g.target, item)
                    if all(self.truth(c_) for c_ in g.ifs):
                        nest(k + 1)
            nest(0)
            return out_l
        if isinstance(e, ast.BinOp) and isinstance(e.op, ast.BitOr):
            l, r = self.ev(e.left), self.ev(e.right)
            if isinstance(l, ADict) and isinstance(r, ADict):
                out = l.copy("union")
                out.data.update(r.data)
                return out
        if isinstance(e, ast.DictComp):
            out = ADict({}, "comprehension")

            def nest_d(k):
                if k == len(e.generators):
                    out.data[self.ev(e.key)] = self.ev(e.value)
                    return
                g = e.generators[k]
                for item in self.iterate(g.iter):
                    self.bind(g.target, item)
                    if all(self.truth(c) for c in g.ifs):
                        nest_d(k + 1)
            nest_d(0)
            return out
        if isinstance(e, ast.Call):
            return self.call(e)
        raise Unsupported(ast.unparse(e)[:60])

    def call(self, c: ast.Call):
        fn = ast.unparse(c.func)
        if fn == "isinstance" and len(c.args) == 2:
            v = self.ev(c.args[0])
            types = [ast.unparse(t) for t in (c.args[1].elts if isinstance(c.args[1], ast.Tuple) else [c.args[1]])]
            if all(t in ("str", "bytes") for t in types):
                return isinstance(v, str) and "str" in types
            if all(t in ("torch.Tensor", "Tensor") for t in types):
                return isinstance(v, Tok) and v.is_tensor
            raise Unsupported("isinstance(.., %s)" % types)
        if fn in ("all", "any") and len(c.args) == 1 and isinstance(c.args[0], (ast.GeneratorExp, ast.ListComp)) and not c.keywords:
            # all(<test> for k in d): the element is evaluated as a truth value per item
            g_ = c.args[0]
            vals_ = []

            def nest_t(k):
                if k == len(g_.generators):
                    vals_.append(self.truth(g_.elt))
                    return
                gen_ = g_.generators[k]
                for item in self.iterate(gen_.iter):
                    self.bind(gen_.target, item)
                    if all(self.truth(c_) for c_ in gen_.ifs):
                        nest_t(k + 1)
            nest_t(0)
            return all(vals_) if fn == "all" else any(vals_)
        args = [self.ev(a) for a in c.args if not isinstance(a, ast.Starred)]
        if fn == "range" and args and all(isinstance(a, int) for a in args):
            return list(range(*args))
        if fn == "enumerate" and len(args) == 1 and isinstance(args[0], (list, tuple)):
            return [(i_, x_) for i_, x_ in enumerate(args[0])]
        if fn == "zip" and args and all(isinstance(a, (list, tuple)) for a in args):
            return [tuple(t_) for t_ in zip(*args)]
        if isinstance(c.func, ast.Attribute) and c.func.attr in ("append", "extend", "insert") and not isinstance(c.func.value, ast.Constant):
            recv_ = self.ev(c.func.value)
            if isinstance(recv_, list):
                if c.func.attr == "append" and len(args) == 1:
                    recv_.append(args[0])
                    return None
                if c.func.attr == "extend" and len(args) == 1 and isinstance(args[0], (list, tuple)):
                    recv_.extend(args[0])
                    return None
                if c.func.attr == "insert" and len(args) == 2 and isinstance(args[0], int):
                    recv_.insert(args[0], args[1])
                    return None
        kws = {k.arg: self.ev(k.value) for k in c.keywords if k.arg}
        star = [self.ev(k.value) for k in c.keywords if k.arg is None]
        if fn in ("copy.copy", "copy.deepcopy", "copy", "deepcopy") and len(args) == 1 and isinstance(args[0], ADict):
            return args[0].copy()
        if fn == "dict":
            out = ADict({}, "dict()")
            for a in args + star:
                if isinstance(a, (list, tuple)) and all(isinstance(x, (list, tuple)) and len(x) == 2 for x in a):
                    out.data.update({k_: v_ for k_, v_ in a})        # dict(<iterable of pairs>)
                    continue
                if not isinstance(a, ADict):
                    raise Unsupported("dict(%r)" % (a,))
                out.data.update(a.data)
            out.data.update(kws)
            return out
        if fn == "len" and len(args) == 1 and isinstance(args[0], ADict):
            return len(args[0].data)
        if fn == "len" and len(args) == 1 and isinstance(args[0], (list, tuple, str)):
            return len(args[0])
        if fn == "isinstance" and len(c.args) == 2:
            v = args[0]
            types = [ast.unparse(t) for t in (c.args[1].elts if isinstance(c.args[1], ast.Tuple) else [c.args[1]])]
            if all(t in ("str", "bytes") for t in types):
                return isinstance(v, str) and "str" in types
            raise Unsupported("isinstance(.., %s)" % types)
        if fn == "callable" and len(args) == 1:
            return isinstance(args[0], CallableToken)
        if fn == "hasattr" and len(args) == 2 and args[1] == "__call__":
            return isinstance(args[0], CallableToken)
        if fn == "str" and len(args) == 1:
            return str(args[0])
        if fn in ("RuntimeError", "ValueError", "KeyError", "TypeError", "NotImplementedError"):
            return ("exc", fn)
        if fn == "iter" and len(args) == 1:
            return AIter(list(args[0].data) if isinstance(args[0], ADict) else list(args[0]))
        if fn == "next" and 1 <= len(args) <= 2 and isinstance(args[0], (AIter, list)):
            it_ = args[0] if isinstance(args[0], AIter) else AIter(args[0])
            if it_.pos < len(it_.items):
                it_.pos += 1
                return it_.items[it_.pos - 1]
            if len(args) == 2:
                return args[1]
            raise Raised("StopIteration")
        if fn in ("min", "max") and len(args) == 1 and isinstance(args[0], list) and args[0] and all(isinstance(x, str) for x in args[0]):
            return min(args[0]) if fn == "min" else max(args[0])
        if fn in ("list", "tuple", "sorted", "reversed") and len(args) == 1:
            seq = list(args[0]) if not isinstance(args[0], ADict) else list(args[0].data)
            if fn == "sorted":
                if c.keywords:
                    raise Unsupported("sorted with a key")
                try:
                    return sorted(seq, key=lambda x: x[0] if isinstance(x, tuple) and x and isinstance(x[0], str) else x)
                except TypeError:
                    raise Unsupported("sorted of incomparable abstract values")
            if fn == "reversed":
                return list(reversed(seq))
            return tuple(seq) if fn == "tuple" else seq
        if isinstance(c.func, ast.Attribute):
            recv = self.ev(c.func.value)
            m = c.func.attr
            if isinstance(recv, str) and not recv.startswith("$"):
                if m in ("lower", "upper", "strip", "casefold") and not args:
                    return getattr(recv, m)()
                if m in ("startswith", "endswith") and len(args) == 1 and isinstance(args[0], str):
                    return getattr(recv, m)(args[0])
                if m == "format":
                    return "<message>"
            if isinstance(recv, ADict):
                if m == "copy" and not args:
                    return recv.copy()
                if m == "items" and not args:
                    return list(recv.data.items())
                if m == "keys" and not args:
                    return list(recv.data.keys())
                if m == "values" and not args:
                    return list(recv.data.values())
                if m == "get" and 1 <= len(args) <= 2:
                    return recv.data.get(args[0], args[1] if len(args) == 2 else None)
                if m == "update":
                    recv.mutated = True
                    for a in args + star:
                        if isinstance(a, ADict):
                            recv.data.update(a.data)
                        elif isinstance(a, list):
                            recv.data.update(dict(a))
                        else:
                            raise Unsupported("update(%r)" % (a,))
                    recv.data.update(kws)
                    return None
                if m == "setdefault" and len(args) == 2:
                    recv.mutated = True
                    return recv.data.setdefault(args[0], args[1])
                if m == "pop" and 1 <= len(args) <= 2:
                    recv.mutated = True
                    if args[0] in recv.data:
                        return recv.data.pop(args[0])
                    if len(args) == 2:
                        return args[1]
                    raise Unsupported("KeyError in pop")
                if m == "clear" and not args:
                    recv.mutated = True
                    recv.data.clear()
                    return None
        raise Unsupported("call %s" % fn)

    def truth(self, e) -> bool:
        if isinstance(e, ast.UnaryOp) and isinstance(e.op, ast.Not):
            return not self.truth(e.operand)
        if isinstance(e, ast.BoolOp):
            if isinstance(e.op, ast.And):
                return all(self.truth(v) for v in e.values)
            return any(self.truth(v) for v in e.values)
        if isinstance(e, ast.Compare) and len(e.ops) == 1:
            l, r = self.ev(e.left), self.ev(e.comparators[0])
            op = e.ops[0]
            if isinstance(op, ast.Is):
                return (l.ident == r.ident) if isinstance(l, ADict) and isinstance(r, ADict) else (l is r)
            if isinstance(op, ast.IsNot):
                return not ((l.ident == r.ident) if isinstance(l, ADict) and isinstance(r, ADict) else (l is r))
            if isinstance(op, (ast.In, ast.NotIn)):
                cont = r.data if isinstance(r, ADict) else r
                res = l in cont
                return res if isinstance(op, ast.In) else not res
            if isinstance(op, (ast.Eq, ast.NotEq)):
                lv = l.data if isinstance(l, ADict) else l
                rv = r.data if isinstance(r, ADict) else r
                return (lv == rv) if isinstance(op, ast.Eq) else (lv != rv)
            if isinstance(l, int) and isinstance(r, int):
                return {ast.Lt: l < r, ast.LtE: l <= r, ast.Gt: l > r, ast.GtE: l >= r}[type(op)]
            raise Unsupported(ast.unparse(e))
        return self._truth_of_value(self.ev(e))

    def _truth_of_value(self, v) -> bool:
        if isinstance(v, ADict):
            return bool(v.data)
        if isinstance(v, (CallableToken, OtherToken, Tok)):
            return True
        if isinstance(v, (list, tuple)):
            return len(v) > 0
        if isinstance(v, str) and v.startswith("$"):
            raise Unsupported("truth value of a symbolic option value")
        return bool(v)

    def iterate(self, e):
        v = self.ev(e)
        if isinstance(v, ADict):
            return list(v.data.keys())
        if isinstance(v, (list, tuple)):
            return list(v)
        raise Unsupported("iteration over %r" % (v,))

    def bind(self, t, v):
        if isinstance(t, ast.Name):
            self.env[t.id] = v
        elif isinstance(t, (ast.Tuple, ast.List)) and isinstance(v, (tuple, list)) and not any(isinstance(x, ast.Starred) for x in t.elts):
            if len(t.elts) != len(v):
                raise Raised("ValueError: cannot unpack %d values into %d names" % (len(v), len(t.elts)))
            for tt, vv in zip(t.elts, v):
                self.bind(tt, vv)
        elif isinstance(t, ast.Attribute):
            self.env[ast.unparse(t)] = v
        elif isinstance(t, ast.Subscript):
            d, k = self.ev(t.value), self.ev(t.slice)
            if isinstance(d, list) and isinstance(k, int):
                if not -len(d) <= k < len(d):
                    raise Raised("IndexError")
                d[k] = v
                return
            if not isinstance(d, ADict):
                raise Unsupported("store into a non-dict")
            d.mutated = True
            d.data[k] = v
        else:
            raise Unsupported("target %s" % ast.unparse(t))

    # ---------------------------------------------------------------- statements
    def run(self, stmts):
        for s in stmts:
            if isinstance(s, ast.Expr):
                if isinstance(s.value, ast.Constant):
                    continue
                self.ev(s.value)
            elif isinstance(s, ast.Pass):
                continue
            elif isinstance(s, ast.Assign):
                v = self.ev(s.value)
                for t in s.targets:
                    self.bind(t, v)
            elif isinstance(s, ast.AnnAssign) and s.value is not None:
                self.bind(s.target, self.ev(s.value))
            elif isinstance(s, ast.AugAssign) and isinstance(s.op, (ast.Add, ast.Sub)):
                cur, r = self.ev(s.target), self.ev(s.value)
                if isinstance(cur, int) and isinstance(r, int) and not isinstance(cur, bool):
                    self.bind(s.target, cur + r if isinstance(s.op, ast.Add) else cur - r)
                elif isinstance(cur, list) and isinstance(r, (list, tuple)) and isinstance(s.op, ast.Add):
                    cur.extend(r)
                else:
                    raise Unsupported("augmented assignment %s" % ast.unparse(s)[:40])
            elif isinstance(s, ast.AugAssign) and isinstance(s.op, ast.BitOr):
                d = self.ev(s.target)
                r = self.ev(s.value)
                if isinstance(d, ADict) and isinstance(r, ADict):
                    d.mutated = True
                    d.data.update(r.data)
                else:
                    raise Unsupported("|= on non-dicts")
            elif isinstance(s, ast.Delete):
                for t in s.targets:
                    if isinstance(t, ast.Subscript):
                        d, k = self.ev(t.value), self.ev(t.slice)
                        if isinstance(d, ADict) and k in d.data:
                            d.mutated = True
                            del d.data[k]
                            continue
                    raise Unsupported("del %s" % ast.unparse(t))
            elif isinstance(s, ast.If):
                self.run(s.body if self.truth(s.test) else s.orelse)
            elif isinstance(s, ast.For):
                broke = False
                for item in self.iterate(s.iter):
                    self.bind(s.target, item)
                    try:
                        self.run(s.body)
                    except _Break:
                        broke = True
                        break
                    except _Continue:
                        continue
                if not broke:
                    self.run(s.orelse)
            elif isinstance(s, ast.Return):
                raise _Return(self.ev(s.value) if s.value is not None else None)
            elif isinstance(s, ast.Raise):
                raise Raised(ast.unparse(s.exc)[:60] if s.exc is not None else "re-raise")
            elif isinstance(s, ast.Assert):
                if not self.truth(s.test):
                    raise Raised("assert")
            elif isinstance(s, ast.Try):
                try:
                    try:
                        self.run(s.body)
                    except Raised as e:
                        what = str(e)
                        for h in s.handlers:
                            names = [] if h.type is None else [ast.unparse(t) for t in (h.type.elts if isinstance(h.type, ast.Tuple) else [h.type])]
                            if h.type is None or any(n in ("Exception", "BaseException") or what.startswith(n) or
                                                     (n == "LookupError" and what.startswith(("KeyError", "IndexError"))) for n in names):
                                if h.name:
                                    self.env[h.name] = ("exc", what)
                                self.run(h.body)
                                break
                        else:
                            raise
                    else:
                        self.run(s.orelse)
                finally:
                    if s.finalbody:
                        self.run(s.finalbody)
            elif isinstance(s, ast.Break):
                raise _Break()
            elif isinstance(s, ast.Continue):
                raise _Continue()
            else:
                raise Unsupported("statement %s" % type(s).__name__)

    def call_function(self, fnode: ast.FunctionDef):
        try:
            self.run(fnode.body)
        except _Return as r:
            return r.v
        return None


def merge_scenarios():
    """(defaults, caller options, same_object) scenarios for a `defaults <- caller options` merge"""
    return [
        ({"a": "$Da", "b": "$Db"}, {"b": "$Ob", "c": "$Oc", "n": None}, False),
        ({"a": "$Da", "n": "$Dn"}, {"n": None}, False),             # an explicit None of the caller wins
        ({"a": "$Da"}, {}, False),
        ({}, {"c": "$Oc"}, False),
        ({"a": "$Da", "b": "$Db"}, None, True),                       # the same object passed for both
    ]


def check_merge(fnode: ast.FunctionDef, defname: str, optname: str):
    """Evaluate a two-dictionary merge helper on every scenario.  Returns a list of problems (empty = the helper is
    `fresh dict = defaults overridden by the caller's options`, arguments untouched)."""
    problems = []
    for dflt, opt, same in merge_scenarios():
        d = ADict(dflt, "defaults")
        o = d if same else ADict(opt, "options")
        before_d, before_o = dict(d.data), dict(o.data)
        it = DictInterp({defname: d, optname: o})
        res = it.call_function(fnode)
        want = dict(before_d)
        want.update(before_o)
        scen = "defaults=%s, options=%s" % (before_d, "the same object" if same else before_o)
        if not isinstance(res, ADict):
            problems.append("%s: returns %r, not a dictionary" % (scen, res))
            continue
        if res.data != want:
            problems.append("%s: returns %s, expected %s (the caller's options must win, explicit None included; no key dropped)" % (scen, res.data, want))
        if res.ident in (d.ident, o.ident):
            problems.append("%s: returns one of its arguments instead of a fresh dictionary (a later change of either dict changes the other)" % scen)
        if d.data != before_d or o.data != before_o:
            problems.append("%s: mutates its argument (%s)" % (scen, "defaults" if d.data != before_d else "options"))
    return problems


def check_lookup(fnode: ast.FunctionDef, algname: str, tblname: str, mthname: str):
    """Evaluate a name -> implementation lookup helper on the scenarios of the specification: exact (case-insensitive) names return
    their own entry, anything else that is a string raises, a callable passes through unchanged, a non-string non-callable raises.
    The table contains a key that is a prefix of another key and the probes include proper prefixes, suffixes, super-strings and substrings, so an abbreviation / fuzzy
    match is visible.  Returns a list of problems."""
    table = {"rk4": "$F_rk4", "rk45": "$F_rk45", "euler": "$F_euler"}
    cb = CallableToken()
    probes = [("rk4", "$F_rk4"), ("RK4", "$F_rk4"), ("rk45", "$F_rk45"), ("Euler", "$F_euler"),
              ("rk", Raised), ("eul", Raised), ("rk456", Raised), ("xrk4", Raised), ("k4", Raised), ("ule", Raised),
              ("", Raised), ("nope", Raised), (cb, cb), (OtherToken(), Raised)]
    problems = []
    for probe, want in probes:
        t = ADict(table, "methods")
        it = DictInterp({algname: "alg", tblname: t, mthname: probe})
        try:
            got = it.call_function(fnode)
        except Raised:
            got = Raised
        shown = lambda v: "an exception" if v is Raised else repr(v)
        if got is not want and got != want:
            problems.append("method=%r: returns %s, expected %s" % (probe, shown(got), shown(want)))
        if t.data != table:
            problems.append("method=%r: the table is modified" % (probe,))
    return problems
