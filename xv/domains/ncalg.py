"""Non-commutative word algebra for matrix expressions: products of symbols, each possibly adjoint and/or inverted.

Used to decide *algebraic identities between matrix expressions in the source* (congruence reductions, QR-type
orthonormalisations, Gram/singular-vector pairings) by normalisation: expand names through their single definitions,
rewrite X = C C^H for C = cholesky(X), reverse products under adjoint/inverse, cancel neighbouring F F^-1.  Real-valued
`transpose(-2, -1)` is treated as the adjoint where the rule says so (documented real-only code).  Nothing is executed.
"""
from __future__ import annotations
import ast
from typing import Dict, List, Optional, Tuple, Callable
from .poly import Uninterpretable

Factor = Tuple[str, bool, bool]     # (symbol, adjoint, inverse)
Word = Tuple[Factor, ...]


def adj(w: Word, hermitian: frozenset = frozenset()) -> Word:
    return tuple((n, (a if n in hermitian else not a), i) for (n, a, i) in reversed(w))


def inv(w: Word) -> Word:
    return tuple((n, a, not i) for (n, a, i) in reversed(w))


def mul(*ws: Word) -> Word:
    out: List[Factor] = []
    for w in ws:
        out.extend(w)
    return simplify(tuple(out))


def simplify(w: Word, hermitian: frozenset = frozenset()) -> Word:
    out: List[Factor] = []
    for f in w:
        n, a, i = f
        if n in hermitian:
            a = False
        if n == "I":
            continue
        if out and out[-1][0] == n and out[-1][1] == a and out[-1][2] != i:
            out.pop()
        else:
            out.append((n, a, i))
    return tuple(out)


def sym(name: str) -> Word:
    return ((name, False, False),)


def show(w: Word) -> str:
    if not w:
        return "I"
    return " ".join(n + ("^-H" if a and i else "^H" if a else "^-1" if i else "") for n, a, i in w)


def is_adjoint_expr(e: ast.AST, real_transpose: bool) -> Optional[ast.AST]:
    """if e is <x>^H in one of the accepted spellings return x"""
    def is_T(c):
        return (isinstance(c, ast.Call) and isinstance(c.func, ast.Attribute) and c.func.attr in ("transpose", "swapaxes") and len(c.args) == 2
                and sorted(ast.unparse(a) for a in c.args) == ["-1", "-2"])

    def is_conj(c):
        return isinstance(c, ast.Call) and isinstance(c.func, ast.Attribute) and c.func.attr == "conj" and not c.args
    if is_conj(e) and is_T(e.func.value):
        return e.func.value.func.value
    if is_T(e) and is_conj(e.func.value):
        return e.func.value.func.value
    if isinstance(e, ast.Attribute) and e.attr in ("mH", "H"):
        return e.value
    if isinstance(e, ast.Call) and isinstance(e.func, ast.Attribute) and e.func.attr == "adjoint" and not e.args:
        return e.func.value
    if real_transpose:
        if is_T(e):
            return e.func.value
        if isinstance(e, ast.Attribute) and e.attr in ("T", "mT"):
            return e.value
    return None


class WordEval:
    def __init__(self, defs: Dict[str, List[ast.AST]], leaves: Dict[str, str], real_transpose: bool = False,
                 call_hook: Optional[Callable] = None):
        self.defs = defs
        self.leaves = leaves          # source text of a leaf expression / name -> symbol
        self.real_transpose = real_transpose
        self.chol: Dict[str, Word] = {}     # symbol of a Cholesky factor -> the word it factorises
        self.call_hook = call_hook
        self.depth = 0
        self.env: Dict[str, Word] = {}      # names already bound to words (sequential evaluation)

    def ev(self, e: ast.AST) -> Word:
        src = ast.unparse(e)
        if src in self.leaves:
            return sym(self.leaves[src])
        x = is_adjoint_expr(e, self.real_transpose)
        if x is not None:
            return adj(self.ev(x))
        if not self.real_transpose:
            pt = is_adjoint_expr(e, True)
            if pt is not None:
                # a plain transpose in complex-capable code is NOT the adjoint: keep it as a distinct (uninterpreted) operation
                return tuple((n + "~T", a, i) for (n, a, i) in reversed(self.ev(pt)))
        if isinstance(e, ast.Name) and e.id in self.env:
            return self.env[e.id]
        if isinstance(e, ast.Name):
            ds = self.defs.get(e.id, [])
            if len(ds) == 1 and self.depth < 12:
                self.depth += 1
                try:
                    return self.ev(ds[0])
                finally:
                    self.depth -= 1
            raise Uninterpretable("name %s has %d definitions" % (e.id, len(ds)))
        if isinstance(e, ast.BinOp) and isinstance(e.op, ast.MatMult):
            return mul(self.ev(e.left), self.ev(e.right))
        if isinstance(e, ast.Call):
            fn = ast.unparse(e.func)
            if self.call_hook is not None:
                r = self.call_hook(self, e)
                if r is not None:
                    return r
            if fn in ("torch.matmul", "torch.mm", "torch.bmm") and len(e.args) == 2:
                return mul(self.ev(e.args[0]), self.ev(e.args[1]))
            if fn in ("torch.inverse", "torch.linalg.inv") and len(e.args) == 1:
                return inv(self.ev(e.args[0]))
            if fn == "torch.einsum" and len(e.args) == 3 and isinstance(e.args[0], ast.Constant) and isinstance(e.args[0].value, str) and not e.keywords:
                # a two-operand matrix contraction written in index notation: X?T Y?T, possibly transposed on output
                spec = e.args[0].value.replace(" ", "")
                try:
                    ins, out = spec.split("->")
                    x, y = [t.replace("...", "") for t in ins.split(",")]
                    out = out.replace("...", "")
                except ValueError:
                    raise Uninterpretable("matrix expression %s" % src[:80])
                shared = [c for c in x if c in y and c not in out]
                if not (len(x) == len(y) == len(out) == 2 and len(shared) == 1 and len(set(x)) == 2 and len(set(y)) == 2):
                    raise Uninterpretable("matrix expression %s" % src[:80])
                c = shared[0]

                def tr(w):
                    if self.real_transpose:
                        return adj(w)
                    return tuple((n + "~T", a, i) for (n, a, i) in reversed(w))
                xw, yw = self.ev(e.args[1]), self.ev(e.args[2])
                fx = x[0] if x[1] == c else x[1]
                fy = y[1] if y[0] == c else y[0]
                pw = mul(xw if x[1] == c else tr(xw), yw if y[0] == c else tr(yw))
                if out == fx + fy:
                    return pw
                if out == fy + fx:
                    return tr(pw)
                raise Uninterpretable("matrix expression %s" % src[:80])
            if fn in ("torch.linalg.solve", "torch.linalg.solve_triangular") and len(e.args) == 2:
                # solve(A, B) = A^-1 B; with left=False it solves X A = B, i.e. B A^-1 (`upper`/`unitriangular` only say how A is read)
                left = True
                for k in e.keywords:
                    if k.arg == "left":
                        if not isinstance(k.value, ast.Constant):
                            raise Uninterpretable("matrix expression %s" % src[:80])
                        left = bool(k.value.value)
                    elif k.arg not in ("upper",):
                        raise Uninterpretable("matrix expression %s" % src[:80])
                a_, b_ = self.ev(e.args[0]), self.ev(e.args[1])
                return mul(inv(a_), b_) if left else mul(b_, inv(a_))
            if fn in ("torch.linalg.cholesky", "torch.cholesky") and len(e.args) == 1:
                w = self.ev(e.args[0])
                name = "chol(%s)" % show(w).replace(" ", "*")
                self.chol[name] = w
                return sym(name)
            if isinstance(e.func, ast.Attribute) and e.func.attr in ("contiguous", "clone") and not e.args:
                return self.ev(e.func.value)
            if isinstance(e.func, ast.Attribute) and e.func.attr in ("mm", "mv") and len(e.args) == 1:
                return mul(self.ev(e.func.value), self.ev(e.args[0]))
            if isinstance(e.func, ast.Attribute) and e.func.attr in ("rmm", "rmv") and len(e.args) == 1:
                return mul(adj(self.ev(e.func.value)), self.ev(e.args[0]))
            if isinstance(e.func, ast.Attribute) and e.func.attr == "fullmatrix" and not e.args:
                return self.ev(e.func.value)
        raise Uninterpretable("matrix expression %s" % src[:80])

    def expand_chol(self, w: Word) -> Word:
        """rewrite every symbol X that has a Cholesky factor C in scope as C C^H (X itself, not X^-1)"""
        rev = {}
        for c, x in self.chol.items():
            if len(x) == 1 and not x[0][2]:
                rev[(x[0][0], x[0][1])] = c
                rev[(x[0][0], not x[0][1])] = c       # the factorised matrix is Hermitian
        out: List[Factor] = []
        for (n, a, i) in w:
            if (n, a) in rev:
                c = rev[(n, a)]
                pair = [(c, False, False), (c, True, False)]
                if i:
                    pair = [(c, True, True), (c, False, True)]
                out.extend(pair)
            else:
                out.append((n, a, i))
        return simplify(tuple(out))
