"""Polynomial / rational-function normal form over Q (expression normalisation, as a compiler's algebraic
value numbering does): fold constants, expand, collect, compare normal forms.  No paths, no solver."""
from __future__ import annotations
import ast
from fractions import Fraction as F
from typing import Dict, Tuple, Callable, Optional


class Poly:
    """multivariate polynomial over Q: {tuple(sorted((symbol, exponent))): coefficient}"""
    __slots__ = ("t",)

    def __init__(self, terms=None):
        self.t = {k: v for k, v in (terms or {}).items() if v != 0}

    @staticmethod
    def const(c):
        return Poly({(): F(c)})

    @staticmethod
    def sym(s):
        return Poly({((s, 1),): F(1)})

    def __add__(a, b):
        r = dict(a.t)
        for k, v in b.t.items():
            r[k] = r.get(k, 0) + v
        return Poly(r)

    def __neg__(a):
        return Poly({k: -v for k, v in a.t.items()})

    def __sub__(a, b):
        return a + (-b)

    def __mul__(a, b):
        r: Dict[tuple, F] = {}
        for k1, v1 in a.t.items():
            for k2, v2 in b.t.items():
                d = dict(k1)
                for s, e in k2:
                    d[s] = d.get(s, 0) + e
                k = tuple(sorted(d.items()))
                r[k] = r.get(k, 0) + v1 * v2
        return Poly(r)

    def __eq__(a, b):
        return isinstance(b, Poly) and a.t == b.t

    def __hash__(self):
        return hash(tuple(sorted(self.t.items())))

    def is_zero(self):
        return not self.t

    def symbols(self):
        return {s for k in self.t for s, _ in k}

    def subs(self, sym: str, val: "Poly") -> "Poly":
        res = Poly()
        for k, v in self.t.items():
            term = Poly.const(v)
            for s, e in k:
                base = val if s == sym else Poly.sym(s)
                for _ in range(e):
                    term = term * base
            res = res + term
        return res

    def coeff_of(self, sym: str, exp: int) -> "Poly":
        """coefficient polynomial of sym**exp"""
        r = {}
        for k, v in self.t.items():
            d = dict(k)
            if d.get(sym, 0) == exp:
                d.pop(sym, None)
                r[tuple(sorted(d.items()))] = v
        return Poly(r)

    def degree(self, sym: str) -> int:
        return max([dict(k).get(sym, 0) for k in self.t] or [0])

    def __repr__(a):
        if not a.t:
            return "0"
        out = []
        for k, v in sorted(a.t.items()):
            mono = "*".join(s if e == 1 else "%s^%d" % (s, e) for s, e in k)
            out.append(("%s*%s" % (v, mono)) if k and v != 1 else (mono if k else str(v)))
        return " + ".join(out)


class Rat:
    """rational function num/den; equality by cross multiplication"""
    __slots__ = ("n", "d")

    def __init__(s, n: Poly, d: Optional[Poly] = None):
        if d is not None and len(d.t) == 1 and () in d.t and d.t[()] != 1:
            # constant denominator: fold it into the numerator so that equal values print equally
            k = d.t[()]
            n = Poly({m: v / k for m, v in n.t.items()})
            d = None
        s.n = n
        s.d = d if d is not None else Poly.const(1)

    def __add__(a, b):
        if a.d == b.d:
            return Rat(a.n + b.n, a.d)
        return Rat(a.n * b.d + b.n * a.d, a.d * b.d)

    def __sub__(a, b):
        return a + (-b)

    def __neg__(a):
        return Rat(-a.n, a.d)

    def __mul__(a, b):
        return Rat(a.n * b.n, a.d * b.d)

    def __truediv__(a, b):
        if b.n.is_zero():
            raise ZeroDivisionError("division by the zero polynomial")
        return Rat(a.n * b.d, a.d * b.n)

    def __pow__(a, k: int):
        if k < 0:
            return (C(1) / a) ** (-k)
        r = C(1)
        for _ in range(k):
            r = r * a
        return r

    def eq(a, b) -> bool:
        return (a.n * b.d) == (b.n * a.d)

    def is_zero(a):
        return a.n.is_zero()

    def symbols(a):
        return a.n.symbols() | a.d.symbols()

    def subs(a, sym, val: "Rat") -> "Rat":
        # substitute a rational function for a symbol: evaluate numerator and denominator with Rat arithmetic
        def ev(p: Poly) -> Rat:
            res = C(0)
            for k, v in p.t.items():
                term = C(v)
                for s, e in k:
                    base = val if s == sym else S(s)
                    term = term * (base ** e)
                res = res + term
            return res
        return ev(a.n) / ev(a.d)

    def __repr__(a):
        return "(%r)/(%r)" % (a.n, a.d) if a.d != Poly.const(1) else repr(a.n)


def C(c) -> Rat:
    return Rat(Poly.const(F(c)))


def S(s) -> Rat:
    return Rat(Poly.sym(s))


class Uninterpretable(Exception):
    """the fragment uses a construct outside the documented abstraction -> the rule is undecided (exit 2)"""


def eval_expr(e: ast.AST, env: Dict[str, Rat], atom: Optional[Callable[[ast.AST], Optional[Rat]]] = None,
              source: Optional[str] = None) -> Rat:
    """Normal form of an arithmetic expression.  `env` binds names; `atom` may map any other sub-expression to a
    value (return None to decline).  Float literals are read from their source text when `source` is given."""
    if atom is not None and (not isinstance(e, (ast.BinOp, ast.UnaryOp, ast.Constant)) or
                             (isinstance(e, ast.BinOp) and isinstance(e.op, (ast.Mod, ast.FloorDiv)))):
        r = atom(e)
        if r is not None:
            return r
    if isinstance(e, ast.Constant) and isinstance(e.value, (int, float)) and not isinstance(e.value, bool):
        if source is not None:
            from .exact import fold
            return C(fold(e, source))
        return C(F(str(e.value)))
    if isinstance(e, ast.Name):
        if e.id in env:
            return env[e.id]
        raise Uninterpretable("unbound name %s" % e.id)
    if isinstance(e, ast.UnaryOp) and isinstance(e.op, ast.USub):
        return -eval_expr(e.operand, env, atom, source)
    if isinstance(e, ast.UnaryOp) and isinstance(e.op, ast.UAdd):
        return eval_expr(e.operand, env, atom, source)
    if isinstance(e, ast.BinOp):
        if isinstance(e.op, ast.Pow):
            a = eval_expr(e.left, env, atom, source)
            if isinstance(e.right, ast.Constant) and isinstance(e.right.value, int) and abs(e.right.value) <= 8:
                return a ** e.right.value
            raise Uninterpretable("non-integer power %s" % ast.unparse(e))
        a, b = eval_expr(e.left, env, atom, source), eval_expr(e.right, env, atom, source)
        if isinstance(e.op, ast.Add):
            return a + b
        if isinstance(e.op, ast.Sub):
            return a - b
        if isinstance(e.op, ast.Mult):
            return a * b
        if isinstance(e.op, ast.Div):
            try:
                return a / b
            except ZeroDivisionError:
                raise Uninterpretable("division by zero in %s" % ast.unparse(e))
        raise Uninterpretable("operator %s" % type(e.op).__name__)
    raise Uninterpretable("expression %s" % ast.unparse(e))
