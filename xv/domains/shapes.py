"""Symbolic shape domain: a tensor is abstracted by the tuple of its dimension symbols (distinct names such as
"d0", "nx", or the integer 1).  Interprets the handful of shape-changing operations the quadrature / interpolation
front-ends use, with NumPy broadcasting, and the control flow on *concrete* `dim` / `keepdim` values.  Used to enumerate
rank x dim x keepdim exhaustively.  Nothing is executed."""
from __future__ import annotations
import ast
from typing import Dict, List, Optional, Tuple, Any, Callable
from .poly import Uninterpretable

Dim = Any
Shape = Tuple[Dim, ...]


class Raised(Exception):
    """the interpreted code reaches a `raise`"""
    def __init__(self, node):
        self.node = node


class ShapeError(Uninterpretable):
    """the interpreted operation is a definite run-time shape error in torch (axis out of range, shapes that do not broadcast, ...)"""


class T:
    """abstract tensor"""
    def __init__(self, shape):
        self.shape: Shape = tuple(shape)

    def __repr__(self):
        return "T%s" % (self.shape,)


def norm_axis(k: int, rank: int) -> int:
    if not -rank <= k < rank:
        raise ShapeError("axis %d out of range for rank %d" % (k, rank))
    return k % rank


def broadcast(a: Shape, b: Shape) -> Shape:
    out = []
    for i in range(1, max(len(a), len(b)) + 1):
        x = a[-i] if i <= len(a) else 1
        y = b[-i] if i <= len(b) else 1
        if x == y or y == 1:
            out.append(x)
        elif x == 1:
            out.append(y)
        else:
            raise ShapeError("shapes %s and %s do not broadcast" % (a, b))
    return tuple(reversed(out))


def matmul_shape(a: Shape, b: Shape) -> Shape:
    if len(a) == 0 or len(b) == 0:
        raise ShapeError("matmul of a 0-dimensional operand %s @ %s" % (a, b))
    if len(a) == 1 and len(b) == 1:
        if a[0] != b[0]:
            raise ShapeError("dot product of different lengths %s @ %s" % (a, b))
        return ()
    if len(b) == 1:            # matrix @ vector: the vector is a column, the added axis is removed
        if a[-1] != b[0]:
            raise ShapeError("matmul contraction mismatch %s @ %s" % (a, b))
        return tuple(a[:-1])
    if len(a) == 1:            # vector @ matrix: the vector is a row
        if a[0] != b[-2]:
            raise ShapeError("matmul contraction mismatch %s @ %s" % (a, b))
        return tuple(b[:-2]) + (b[-1],)
    if a[-1] != b[-2]:
        raise ShapeError("matmul contraction mismatch %s @ %s" % (a, b))
    return broadcast(a[:-2], b[:-2]) + (a[-2], b[-1])


def einsum_shape(spec: str, ops: List[Shape]) -> Tuple[Shape, Dict[str, Dim]]:
    lhs, rhs = spec.replace(" ", "").split("->")
    terms = lhs.split(",")
    if len(terms) != len(ops):
        raise Uninterpretable("einsum arity")
    binding: Dict[str, Dim] = {}
    ell: Shape = ()
    for t, sh in zip(terms, ops):
        if "..." in t:
            pre, post = t.split("...")
            n_e = len(sh) - len(pre) - len(post)
            if n_e < 0:
                raise Uninterpretable("einsum operand rank")
            names = list(pre) + [None] * n_e + list(post)
            e_dims = sh[len(pre):len(pre) + n_e]
            ell = broadcast(ell, tuple(e_dims))
        else:
            if len(t) != len(sh):
                raise Uninterpretable("einsum operand rank %s vs %s" % (t, sh))
            names = list(t)
        for nme, d in zip(names, sh):
            if nme is None:
                continue
            if nme in binding and binding[nme] != d and 1 not in (binding[nme], d):
                raise ShapeError("einsum index %s bound to %s and %s" % (nme, binding[nme], d))
            binding.setdefault(nme, d)
    out: List[Dim] = []
    if "..." in rhs:
        pre, post = rhs.split("...")
        out = [binding[c] for c in pre] + list(ell) + [binding[c] for c in post]
    else:
        out = [binding[c] for c in rhs]
    return tuple(out), binding


class ShapeInterp:
    def __init__(self, env: Dict[str, Any], self_attrs: Optional[Dict[str, Any]] = None,
                 call_hook: Optional[Callable] = None):
        self.env = dict(env)
        self.self_attrs = dict(self_attrs or {})
        self.call_hook = call_hook

    def const_int(self, e) -> Optional[int]:
        v = self.ev(e)
        return v if isinstance(v, int) and not isinstance(v, bool) else None

    def ev(self, e: ast.AST):
        if isinstance(e, ast.Constant):
            return e.value
        if isinstance(e, ast.Name):
            if e.id in self.env:
                return self.env[e.id]
            raise Uninterpretable("unbound name %s" % e.id)
        if isinstance(e, ast.UnaryOp):
            v = self.ev(e.operand)
            if isinstance(e.op, ast.USub) and isinstance(v, int):
                return -v
            if isinstance(e.op, ast.Not) and isinstance(v, bool):
                return not v
            if isinstance(e.op, ast.USub) and isinstance(v, T):
                return v
            raise Uninterpretable("unary %s" % ast.unparse(e))
        if isinstance(e, ast.BoolOp):
            vals = [self.ev(x) for x in e.values]
            if not all(isinstance(v, bool) for v in vals):
                raise Uninterpretable("boolean operands %s" % ast.unparse(e))
            return all(vals) if isinstance(e.op, ast.And) else any(vals)
        if isinstance(e, ast.Compare) and len(e.ops) == 1:
            a, b = self.ev(e.left), self.ev(e.comparators[0])
            op = e.ops[0]
            if isinstance(op, (ast.Is, ast.IsNot)):
                r = (a is b) or (a is None and b is None)
                return r if isinstance(op, ast.Is) else not r
            if isinstance(op, (ast.Eq, ast.NotEq)):
                r = (a == b)
                return r if isinstance(op, ast.Eq) else not r
            if isinstance(a, int) and isinstance(b, int):
                return {ast.Lt: a < b, ast.LtE: a <= b, ast.Gt: a > b, ast.GtE: a >= b}[type(op)]
            raise Uninterpretable("comparison %s" % ast.unparse(e))
        if isinstance(e, ast.Attribute):
            if isinstance(e.value, ast.Name) and e.value.id == "self":
                if e.attr in self.self_attrs:
                    return self.self_attrs[e.attr]
                raise Uninterpretable("unknown attribute self.%s" % e.attr)
            v = self.ev(e.value)
            if isinstance(v, T) and e.attr == "shape":
                return tuple(v.shape)
            if isinstance(v, T) and e.attr in ("T", "mT") and len(v.shape) >= 2:
                return T(v.shape[:-2] + (v.shape[-1], v.shape[-2]))
            if isinstance(v, T) and e.attr == "ndim":
                return len(v.shape)
            if isinstance(v, T) and e.attr in ("dtype", "device"):
                return "<%s>" % e.attr
            raise Uninterpretable("attribute %s" % ast.unparse(e))
        if isinstance(e, ast.Subscript):
            v = self.ev(e.value)
            if isinstance(v, tuple):      # a shape
                if isinstance(e.slice, ast.Slice):
                    lo = self.const_int(e.slice.lower) if e.slice.lower is not None else None
                    hi = self.const_int(e.slice.upper) if e.slice.upper is not None else None
                    return v[lo:hi]
                k = self.const_int(e.slice)
                if k is None:
                    raise Uninterpretable("shape index %s" % ast.unparse(e))
                return v[k]
            if isinstance(v, T):
                parts = list(e.slice.elts) if isinstance(e.slice, ast.Tuple) else [e.slice]
                return T(self.index_shape(v.shape, parts))
            raise Uninterpretable("subscript %s" % ast.unparse(e))
        if isinstance(e, ast.BinOp):
            a, b = self.ev(e.left), self.ev(e.right)
            if isinstance(a, T) and isinstance(b, T):
                return T(broadcast(a.shape, b.shape))
            if isinstance(a, T) and isinstance(b, (int, float)):
                return a
            if isinstance(b, T) and isinstance(a, (int, float)):
                return b
            if isinstance(a, int) and isinstance(b, int):
                return {ast.Add: a + b, ast.Sub: a - b, ast.Mult: a * b}.get(type(e.op))
            if isinstance(a, (tuple, list)) and isinstance(b, (tuple, list)) and isinstance(e.op, ast.Add):
                return tuple(a) + tuple(b)
            raise Uninterpretable("operands %s" % ast.unparse(e))
        if isinstance(e, (ast.Tuple, ast.List)):
            out = []
            for x in e.elts:
                if isinstance(x, ast.Starred):
                    out += list(self.ev(x.value))
                else:
                    out.append(self.ev(x))
            return tuple(out)
        if isinstance(e, ast.Call):
            return self.call(e)
        raise Uninterpretable("expression %s" % ast.unparse(e)[:80])

    def index_shape(self, shape: Shape, parts) -> Shape:
        # expand the ellipsis
        n_real = sum(1 for p in parts if not (isinstance(p, ast.Constant) and (p.value is Ellipsis or p.value is None)))
        out: List[Dim] = []
        pos = 0
        for p in parts:
            if isinstance(p, ast.Constant) and p.value is Ellipsis:
                k = len(shape) - n_real
                out += list(shape[pos:pos + k])
                pos += k
            elif isinstance(p, ast.Constant) and p.value is None:
                out.append(1)
            elif isinstance(p, ast.Slice):
                if p.lower is None and p.upper is None and p.step is None:
                    out.append(shape[pos])
                else:
                    out.append("%s[%s]" % (shape[pos], ast.unparse(p)))
                pos += 1
            else:
                if self.const_int(p) is None:
                    raise Uninterpretable("index %s" % ast.unparse(p))
                pos += 1          # integer index removes the axis
        out += list(shape[pos:])
        return tuple(out)

    def kw(self, c: ast.Call, name: str, posidx: Optional[int]):
        for k in c.keywords:
            if k.arg == name:
                return k.value
        if posidx is not None and len(c.args) > posidx:
            return c.args[posidx]
        return None

    def args_of(self, c: ast.Call) -> list:
        out = []
        for a in c.args:
            if isinstance(a, ast.Starred):
                out += list(self.ev(a.value))
            else:
                out.append(self.ev(a))
        return out

    def call(self, c: ast.Call):
        if self.call_hook is not None:
            r = self.call_hook(self, c)
            if r is not None:
                return r
        fn = ast.unparse(c.func)
        if isinstance(c.func, ast.Attribute):
            m = c.func.attr
            recv = None
            try:
                recv = self.ev(c.func.value)
            except Uninterpretable:
                recv = None
            if isinstance(recv, T):
                sh = recv.shape
                if m == "unsqueeze" and len(c.args) == 1:
                    k = self.const_int(c.args[0])
                    k = k % (len(sh) + 1) if k is not None else None
                    if k is None:
                        raise Uninterpretable("unsqueeze axis")
                    return T(sh[:k] + (1,) + sh[k:])
                if m == "squeeze":
                    if not c.args:
                        return T(tuple(d for d in sh if d != 1))
                    k = norm_axis(self.const_int(c.args[0]), len(sh))
                    return T(sh[:k] + sh[k + 1:]) if sh[k] == 1 else T(sh)
                if m in ("transpose", "swapaxes") and len(c.args) == 2:
                    a, b = norm_axis(self.const_int(c.args[0]), len(sh)), norm_axis(self.const_int(c.args[1]), len(sh))
                    l = list(sh)
                    l[a], l[b] = l[b], l[a]
                    return T(l)
                if m == "movedim" and len(c.args) == 2:
                    a, b = norm_axis(self.const_int(c.args[0]), len(sh)), norm_axis(self.const_int(c.args[1]), len(sh))
                    l = list(sh)
                    d = l.pop(a)
                    l.insert(b, d)
                    return T(l)
                if m == "permute":
                    axes = [norm_axis(self.const_int(a), len(sh)) for a in c.args]
                    return T([sh[a] for a in axes])
                if m in ("contiguous", "clone", "detach", "abs", "long", "float", "double", "conj", "exp", "log", "sqrt", "to", "type"):
                    return recv
                if m in ("new_empty", "new_zeros", "new_ones", "new_full") and c.args:
                    shp = self.ev(c.args[0])
                    if isinstance(shp, (tuple, list)):
                        return T(tuple(shp))
                    dims = self.args_of(c)
                    return T(tuple(dims[:-1] if m == "new_full" else dims))
                if m == "expand" and c.args:
                    dims = self.args_of(c)
                    if len(dims) == 1 and isinstance(dims[0], (tuple, list)):
                        dims = list(dims[0])
                    if len(dims) < len(sh):
                        raise ShapeError("expand to fewer dimensions (%s -> %s)" % (sh, dims))
                    pad = (1,) * (len(dims) - len(sh)) + tuple(sh)
                    out_ = []
                    for want, have in zip(dims, pad):
                        if want == -1:
                            out_.append(have)
                        elif have == 1 or have == want:
                            out_.append(want)
                        else:
                            raise ShapeError("expand of size %r to %r" % (have, want))
                    return T(tuple(out_))
                if m == "repeat_interleave":
                    rep = self.kw(c, "repeats", 0)
                    dm = self.kw(c, "dim", 1)
                    k = norm_axis(self.const_int(dm), len(sh)) if dm is not None else None
                    if k is None:
                        raise Uninterpretable("repeat_interleave without dim")
                    r = self.ev(rep)
                    new = r if sh[k] == 1 else "%s*%s" % (sh[k], r)
                    return T(sh[:k] + (new,) + sh[k + 1:])
                if m in ("reshape", "view"):
                    dims = self.args_of(c)
                    if len(dims) == 1 and isinstance(dims[0], tuple):
                        dims = list(dims[0])
                    if dims.count(-1) > 1:
                        raise ShapeError("reshape with more than one -1")
                    rest = list(sh)
                    for d in dims:
                        if d != -1:
                            if d in rest:
                                rest.remove(d)
                            elif d != 1:
                                raise Uninterpretable("reshape to a dimension %r not present in %s" % (d, sh))
                    rest = [d for d in rest if d != 1]
                    fill = 1 if not rest else (rest[0] if len(rest) == 1 else "*".join(str(d) for d in rest))
                    return T([fill if d == -1 else d for d in dims])
                if m == "sum":
                    return self.reduce(recv, self.kw(c, "dim", 0), self.kw(c, "keepdim", 1))
        if fn in ("torch.sum",) and c.args:
            v = self.ev(c.args[0])
            if isinstance(v, T):
                return self.reduce(v, self.kw(c, "dim", 1), self.kw(c, "keepdim", 2))
        if fn == "torch.matmul" and len(c.args) == 2:
            a, b = self.ev(c.args[0]), self.ev(c.args[1])
            if isinstance(a, T) and isinstance(b, T):
                return T(matmul_shape(a.shape, b.shape))
        if fn == "torch.einsum" and c.args and isinstance(c.args[0], ast.Constant):
            ops = [self.ev(a) for a in c.args[1:]]
            if all(isinstance(o, T) for o in ops):
                sh, _ = einsum_shape(c.args[0].value, [o.shape for o in ops])
                return T(sh)
        if fn in ("torch.transpose", "torch.swapaxes") and len(c.args) == 3:
            v = self.ev(c.args[0])
            a, b = norm_axis(self.const_int(c.args[1]), len(v.shape)), norm_axis(self.const_int(c.args[2]), len(v.shape))
            l = list(v.shape)
            l[a], l[b] = l[b], l[a]
            return T(l)
        if fn == "torch.eye" and c.args:
            n_ = self.ev(c.args[0])
            m_ = self.ev(c.args[1]) if len(c.args) > 1 and not isinstance(c.args[1], ast.keyword) else n_
            return T((n_, m_))
        if fn == "torch.diag_embed" and c.args:
            v = self.ev(c.args[0])
            kw = {k.arg: self.const_int(k.value) for k in c.keywords}
            if isinstance(v, T) and kw.get("dim1", -2) == -2 and kw.get("dim2", -1) == -1 and kw.get("offset", 0) == 0:
                return T(v.shape + (v.shape[-1],))
        if fn in ("torch.linalg.solve",) and len(c.args) == 2:
            a, b = self.ev(c.args[0]), self.ev(c.args[1])
            if isinstance(a, T) and isinstance(b, T):
                if len(a.shape) < 2 or a.shape[-1] != a.shape[-2]:
                    raise ShapeError("solve with a non-square matrix %s" % (a.shape,))
                return T(matmul_shape(a.shape, b.shape))
        last = fn.split(".")[-1]
        if fn.startswith("torch.") and last in ("empty", "zeros", "ones", "rand", "randn", "full") and c.args:
            shp = self.ev(c.args[0])
            if isinstance(shp, (tuple, list)):
                return T(tuple(shp))
            dims = [self.ev(a) for a in c.args if not isinstance(a, ast.Starred)]
            if last == "full":
                dims = dims[:-1]
            if all(isinstance(d, (int, str)) for d in dims):
                return T(tuple(dims))
        if fn.startswith("torch.") and last in ("empty_like", "zeros_like", "ones_like", "rand_like", "randn_like", "full_like") and c.args:
            v = self.ev(c.args[0])
            if isinstance(v, T):
                return v
        if fn == "float" and len(c.args) == 1:
            return 1.0
        if fn == "list" and len(c.args) == 1:
            return tuple(self.ev(c.args[0]))
        if fn == "len" and len(c.args) == 1:
            v = self.ev(c.args[0])
            if isinstance(v, tuple):
                return len(v)
        if fn == "isinstance":
            return True
        raise Uninterpretable("call %s" % ast.unparse(c)[:80])

    def reduce(self, v: T, dim_e, keep_e) -> T:
        if dim_e is None:
            return T(())
        k = norm_axis(self.const_int(dim_e), len(v.shape))
        keep = bool(self.ev(keep_e)) if keep_e is not None else False
        sh = v.shape
        return T(sh[:k] + ((1,) if keep else ()) + sh[k + 1:])

    # ------------------------------------------------------------------ statements
    def run(self, stmts):
        for s in stmts:
            if isinstance(s, ast.Expr) and isinstance(s.value, ast.Constant):
                continue
            if isinstance(s, ast.Return):
                return ("return", self.ev(s.value))
            if isinstance(s, ast.Raise):
                raise Raised(s)
            if isinstance(s, ast.Assign) and len(s.targets) == 1 and isinstance(s.targets[0], ast.Name):
                self.env[s.targets[0].id] = self.ev(s.value)
                continue
            if isinstance(s, ast.Assign) and len(s.targets) == 1 and isinstance(s.targets[0], ast.Tuple):
                v = self.ev(s.value)
                tg = s.targets[0].elts
                if not isinstance(v, (tuple, list)) or len(v) != len(tg) or not all(isinstance(t, ast.Name) for t in tg):
                    raise Uninterpretable("tuple assignment %s" % ast.unparse(s))
                for t, x in zip(tg, v):
                    self.env[t.id] = x
                continue
            if isinstance(s, ast.Try):
                r = self.run(s.body)      # the normal path; handlers retry the same shapes
                if r is not None:
                    return r
                continue
            if isinstance(s, ast.If):
                t = self.ev(s.test)
                if not isinstance(t, bool):
                    raise Uninterpretable("condition %s is not decidable in the shape domain" % ast.unparse(s.test))
                r = self.run(s.body if t else s.orelse)
                if r is not None:
                    return r
                continue
            if isinstance(s, ast.Pass):
                continue
            raise Uninterpretable("statement %s" % type(s).__name__)
        return None
