"""Symbolic tensor terms: a small term algebra for straight-line tensor code (no number is ever computed).

A statement block is evaluated over an environment name -> term.  Terms are canonical with respect to the re-spellings that do not
change the value: `a @ b` / torch.matmul(a, b) / a.matmul(b), associativity of the matrix product, commutativity and associativity of
`+` and of the element-wise product, `x * 0.5` / `x / 2`, `x.pow(-1)` / `x.reciprocal()` / `1 / x` / `x ** -1`, `x.abs()` / torch.abs(x),
`x.mH` / `x.transpose(-2, -1).conj()` / `x.conj().transpose(-1, -2)`, `x[..., None]` / `x.unsqueeze(-1)`, in-place masked stores
`x[m] = v` / `x = x.masked_fill(m, v)` / `x.masked_fill_(m, v)` / torch.where(m, v, x), `r += t` / `r = r + t`, adding zeros_like.
Anything outside the vocabulary becomes an uninterpreted operator applied to the terms of its arguments, so two different spellings of
an unknown operation are different terms (the comparison then fails closed as `Unsupported` / mismatch, never as a silent pass).

Terms (tuples):
  ("sym", name)  ("num", Fraction)  ("inf",)  ("none",)
  ("add", ((coef, term), ...))            linear combination, sorted, coefficients Fractions; () is zero
  ("had", (term, ...))                    element-wise (broadcast) product, sorted
  ("mm", (term, ...))                     matrix product chain
  ("H", t) ("T", t) ("conj", t)           adjoint / transpose of the last two axes / conjugate
  ("recip", t) ("abs", t) ("unsq", t, k) ("cmp", op, a, b) ("fill", t, mask, value)
  ("op", name, args...)                   uninterpreted
"""
from __future__ import annotations
import ast
from fractions import Fraction
from typing import Any, Callable, Dict, List, Optional, Tuple

Term = Tuple[Any, ...]


class Unsupported(Exception):
    pass


class LoopSignal(Exception):
    """`break` / `continue` met while a loop body is evaluated by a driver (see simulate_loop)"""
    def __init__(self, kind: str):
        super().__init__(kind)
        self.kind = kind


NONE: Term = ("none",)
INF: Term = ("inf",)
ZERO: Term = ("add", ())


def sym(n: str) -> Term:
    return ("sym", n)


def num(v) -> Term:
    return ("num", Fraction(v))


def _key(t) -> str:
    return repr(t)


def add(*xs: Term) -> Term:
    acc: Dict[Term, Fraction] = {}
    order: List[Term] = []

    def put(c: Fraction, t: Term):
        if t[0] == "add":
            for c2, t2 in t[1]:
                put(c * c2, t2)
            return
        if t[0] == "num":
            t, c = ("num", Fraction(1)), c * t[1]
        if t not in acc:
            acc[t] = Fraction(0)
            order.append(t)
        acc[t] += c
    for x in xs:
        put(Fraction(1), x)
    items = sorted(((c, t) for t, c in acc.items() if c != 0), key=lambda ct: _key(ct[1]))
    if len(items) == 1 and items[0][0] == 1:
        return items[0][1]
    if len(items) == 1 and items[0][1] == ("num", Fraction(1)):
        return ("num", items[0][0])
    return ("add", tuple(items))


def scale(c, t: Term) -> Term:
    c = Fraction(c)
    if t[0] == "num":
        return ("num", c * t[1])
    if t[0] == "add":
        return add(*[("add", ((c * c2, t2),)) for c2, t2 in t[1]]) if t[1] else ZERO
    if c == 1:
        return t
    if c == 0:
        return ZERO
    return ("add", ((c, t),))


def neg(t: Term) -> Term:
    return scale(-1, t)


def _split_coef(t: Term) -> Tuple[Fraction, Term]:
    if t[0] == "add" and len(t[1]) == 1:
        return t[1][0]
    if t[0] == "num":
        return t[1], ("num", Fraction(1))
    return Fraction(1), t


def had(*xs: Term) -> Term:
    coef = Fraction(1)
    fs: List[Term] = []
    for x in xs:
        c, t = _split_coef(x)
        coef *= c
        if t == ("num", Fraction(1)):
            continue
        if t == ZERO:
            return ZERO
        if t[0] == "had":
            fs.extend(t[1])
        else:
            fs.append(t)
    if not fs:
        return ("num", coef)
    fs.sort(key=_key)
    return scale(coef, fs[0] if len(fs) == 1 else ("had", tuple(fs)))


def mm(*xs: Term) -> Term:
    coef = Fraction(1)
    fs: List[Term] = []
    for x in xs:
        c, t = _split_coef(x)
        coef *= c
        if t == ZERO:
            return ZERO
        if t[0] == "mm":
            fs.extend(t[1])
        else:
            fs.append(t)
    return scale(coef, fs[0] if len(fs) == 1 else ("mm", tuple(fs)))


def recip(t: Term) -> Term:
    if t[0] == "num" and t[1] != 0:
        return ("num", 1 / t[1])
    if t[0] == "recip":
        return t[1]
    return ("recip", t)


def absv(t: Term) -> Term:
    """|t|; |-t| is the same term"""
    if t[0] == "num":
        return ("num", abs(t[1]))
    if t[0] == "add" and t[1] and t[1][0][0] < 0:
        t = scale(-1, t)
    if t[0] == "abs":
        return t
    return ("abs", t)


_FLAGS = {"T": (True, False), "conj": (False, True), "H": (True, True)}


def _wrap(base: Term, t: bool, c: bool) -> Term:
    """transpose / conjugate flags over an atom; a transposed unsqueeze(-1 / -2) is the other unsqueeze"""
    if t and base[0] == "unsq" and base[2] in (-1, -2):
        base, t = ("unsq", base[1], -3 - base[2]), False
    if t and c:
        return ("H", base)
    if t:
        return ("T", base)
    if c:
        return ("conj", base)
    return base


def _tc(t: Term, dt: bool, dc: bool) -> Term:
    k = t[0]
    if k in ("num", "inf", "none"):
        return t
    if k in _FLAGS:
        ft, fc = _FLAGS[k]
        return _wrap(t[1], ft != dt, fc != dc)
    if k == "add":
        return add(*[scale(c, _tc(x, dt, dc)) for c, x in t[1]]) if t[1] else ZERO
    if k == "had":
        return had(*[_tc(x, dt, dc) for x in t[1]])
    if k == "mm":
        xs = [_tc(x, dt, dc) for x in t[1]]
        return mm(*(reversed(xs) if dt else xs))
    return _wrap(t, dt, dc)


def conj(t: Term) -> Term:
    return _tc(t, False, True)


def transpose(t: Term) -> Term:
    return _tc(t, True, False)


def adjoint(t: Term) -> Term:
    return _tc(t, True, True)


def value_at(t: Term, mask: Term) -> Optional[Term]:
    """the (constant) value of t at the entries selected by mask, when the term determines it"""
    if t[0] == "fill" and t[2] == mask and t[3][0] in ("num", "inf"):
        return t[3]
    if t[0] == "recip":
        v = value_at(t[1], mask)
        if v == INF:
            return ("num", Fraction(0))
        if v is not None and v[0] == "num" and v[1] != 0:
            return ("num", 1 / v[1])
    return None


def fill(t: Term, mask: Term, v: Term) -> Term:
    """masked store; storing the value the entries already have is the identity"""
    if value_at(t, mask) == v:
        return t
    return ("fill", t, mask, v)


def show(t: Term, depth: int = 0) -> str:
    k = t[0]
    if k == "sym":
        return t[1]
    if k == "num":
        return str(t[1])
    if k in ("inf", "none"):
        return k
    if k == "add":
        if not t[1]:
            return "0"
        return "(" + " + ".join(("%s*" % c if c != 1 else "") + show(x) for c, x in t[1]) + ")"
    if k == "had":
        return "(" + " o ".join(show(x) for x in t[1]) + ")"
    if k == "mm":
        return "(" + " @ ".join(show(x) for x in t[1]) + ")"
    if k in ("H", "T", "conj"):
        return "%s^%s" % (show(t[1]), {"H": "H", "T": "T", "conj": "*"}[k])
    if k == "recip":
        return "1/%s" % show(t[1])
    if k == "abs":
        return "|%s|" % show(t[1])
    if k == "unsq":
        return "%s[unsq %s]" % (show(t[1]), t[2])
    if k == "cmp":
        return "(%s %s %s)" % (show(t[2]), t[1], show(t[3]))
    if k == "fill":
        return "fill(%s where %s := %s)" % (show(t[1]), show(t[2]), show(t[3]))
    if k == "op":
        return "%s(%s)" % (t[1], ", ".join(show(x) if isinstance(x, tuple) else repr(x) for x in t[2:]))
    return repr(t)


def subterms(t):
    yield t
    for x in t[1:]:
        if isinstance(x, tuple):
            if x and isinstance(x[0], str):
                yield from subterms(x)
            else:
                for y in x:
                    if isinstance(y, tuple) and len(y) == 2 and isinstance(y[0], Fraction):
                        yield from subterms(y[1])
                    elif isinstance(y, tuple):
                        yield from subterms(y)


def operators(t) -> set:
    """the uninterpreted operators and free names a term is built from (keyword markers, constants and slices are arguments, not
    operators)"""
    out = set()
    for x in subterms(t):
        if x[0] == "op" and isinstance(x[1], str):
            if x[1].startswith("kw.") or x[1] in ("const", "bool", "slice", "tuple", "*", "**"):
                continue
            out.add((x[1], x[2]) if x[1] == "name" and len(x) > 2 else x[1])
        elif x[0] == "sym":
            out.add(("sym", x[1]))
    return out


def foreign_operators(got: Term, want: Term) -> list:
    """operators of `got` that the specification term does not use.  A mismatch between two terms proves a difference only when
    both are written in the same vocabulary: an operator the specification does not know (`einsum` respelled as `sum`, `diff`,
    ..) may or may not compute the same thing, and the honest verdict is then 'undecided', not 'violation'."""
    return sorted(str(o) for o in operators(got) - operators(want))


def _is_const(t) -> bool:
    return t[0] in ("num", "none") or t[:2] == ("op", "const") or t[:2] == ("op", "bool")


def _const_val(t):
    if t[0] == "num":
        return t[1]
    if t[0] == "none":
        return None
    if t[:2] == ("op", "bool"):
        return t[2]
    return ast.literal_eval(t[2])


_CMP = {ast.LtE: "<=", ast.Lt: "<", ast.GtE: ">=", ast.Gt: ">", ast.Eq: "==", ast.NotEq: "!="}
_FLIP = {">=": "<=", ">": "<"}
_INF_SPELLINGS = {"float('inf')", "math.inf", "torch.inf", "np.inf", "numpy.inf", "float('Inf')", "float('infinity')"}
_IDENTITY_METHODS = {"clone", "contiguous", "detach"}


class TermEval:
    """evaluates statements over an environment of terms.  `unknown_truth(term, test_node)` decides tests whose value the terms do
    not determine (return True / False, or raise Unsupported)."""
    def __init__(self, env: Dict[str, Term], unknown_truth: Optional[Callable] = None, functions: Optional[Dict[str, Any]] = None):
        self.env = dict(env)
        self.unknown_truth = unknown_truth
        self.functions = functions or {}      # name -> ast.FunctionDef of module-level functions whose calls are bound to their signature
        self._depth = 0
        self.skipped: List[ast.stmt] = []            # arms not taken because the terms decide the test
        self.assumed_skipped: List[ast.stmt] = []    # arms not taken because `unknown_truth` said so (the caller must justify these)
        self._assumed = False
        self.returned: Optional[Term] = None

    # ------------------------------------------------------------------ expressions
    def ev(self, e) -> Term:
        src = ast.unparse(e)
        if src in _INF_SPELLINGS:
            return INF
        if isinstance(e, ast.Constant):
            if e.value is None:
                return NONE
            if isinstance(e.value, bool):
                return ("op", "bool", e.value)
            if isinstance(e.value, (int, float)):
                return ("num", Fraction(repr(e.value)) if isinstance(e.value, float) else Fraction(e.value))
            return ("op", "const", repr(e.value))
        if isinstance(e, ast.Name):
            if e.id in self.env:
                return self.env[e.id]
            return ("op", "name", e.id)
        if isinstance(e, ast.Attribute):
            if src in self.env:
                return self.env[src]
            if e.attr == "mH":
                return adjoint(self.ev(e.value))
            if e.attr == "mT":
                return transpose(self.ev(e.value))
            return ("op", "attr." + e.attr, self.ev(e.value))
        if isinstance(e, ast.UnaryOp) and isinstance(e.op, ast.USub):
            return neg(self.ev(e.operand))
        if isinstance(e, ast.UnaryOp) and isinstance(e.op, ast.UAdd):
            return self.ev(e.operand)
        if isinstance(e, ast.UnaryOp) and isinstance(e.op, ast.Not):
            v = self.ev(e.operand)
            if v[:2] == ("op", "bool"):
                return ("op", "bool", not v[2])
            return v[1] if v[0] == "not" else ("not", v)
        if isinstance(e, ast.BoolOp):
            vals = [self.ev(x) for x in e.values]
            if all(v[:2] == ("op", "bool") for v in vals):
                bs = [v[2] for v in vals]
                return ("op", "bool", all(bs) if isinstance(e.op, ast.And) else any(bs))
            return ("op", "and" if isinstance(e.op, ast.And) else "or") + tuple(vals)
        if isinstance(e, ast.BinOp):
            if isinstance(e.op, ast.Pow):
                b, p = self.ev(e.left), self.ev(e.right)
                if p == ("num", Fraction(-1)):
                    return recip(b)
                if p == ("num", Fraction(1)):
                    return b
                return ("op", "pow", b, p)
            a, b = self.ev(e.left), self.ev(e.right)
            if isinstance(e.op, ast.Add):
                return add(a, b)
            if isinstance(e.op, ast.Sub):
                return add(a, neg(b))
            if isinstance(e.op, ast.Mult):
                return had(a, b)
            if isinstance(e.op, ast.Div):
                return had(a, recip(b))
            if isinstance(e.op, ast.MatMult):
                return mm(a, b)
            return ("op", type(e.op).__name__, a, b)
        if isinstance(e, ast.Compare) and len(e.ops) == 1 and isinstance(e.ops[0], (ast.In, ast.NotIn)):
            a, b = self.ev(e.left), self.ev(e.comparators[0])
            if _is_const(a) and b[:2] == ("op", "tuple") and all(_is_const(x) for x in b[2:]):
                res = any(_const_val(a) == _const_val(x) for x in b[2:])
                return ("op", "bool", res if isinstance(e.ops[0], ast.In) else not res)
            return ("op", "in" if isinstance(e.ops[0], ast.In) else "not in", a, b)
        if isinstance(e, (ast.List, ast.Set)):
            return ("op", "tuple") + tuple(self.ev(x) for x in e.elts)
        if isinstance(e, ast.Compare) and len(e.ops) == 1 and type(e.ops[0]) in _CMP:
            op = _CMP[type(e.ops[0])]
            a, b = self.ev(e.left), self.ev(e.comparators[0])
            if op in ("==", "!=") and _is_const(a) and _is_const(b):
                return ("op", "bool", (_const_val(a) == _const_val(b)) == (op == "=="))
            if op in _FLIP:
                op, a, b = _FLIP[op], b, a
            if op in ("==", "!=") and _key(a) > _key(b):
                a, b = b, a
            return ("cmp", op, a, b)
        if isinstance(e, ast.Tuple):
            return ("op", "tuple") + tuple(self.ev(x) for x in e.elts)
        if isinstance(e, ast.Subscript):
            return ("op", "index", self.ev(e.value), ("op", "slice", ast.unparse(e.slice)) if not isinstance(e.slice, ast.Name) else self.ev(e.slice))
        if isinstance(e, ast.Call):
            return self.call(e)
        if isinstance(e, ast.IfExp):
            return self.ev(e.body) if self.truth(e.test) else self.ev(e.orelse)
        raise Unsupported("expression %s" % src[:60])

    def _int(self, e) -> Optional[int]:
        try:
            v = ast.literal_eval(e)
        except Exception:
            return None
        return v if isinstance(v, int) and not isinstance(v, bool) else None

    def known_call(self, fnode, c: ast.Call) -> Term:
        """a call of a function whose definition is known: the arguments are bound to its signature (defaults filled in, ** passed
        through), so positional / keyword spellings of one call are one term; a function whose body is a single `return <expr>` is
        expanded (its value is that expression over the bound arguments)"""
        a = fnode.args
        if a.posonlyargs or a.vararg:
            raise Unsupported("signature of %s" % fnode.name)
        params = [p.arg for p in a.args]
        kwonly = [p.arg for p in a.kwonlyargs]
        bound: Dict[str, Term] = {}
        if any(isinstance(x, ast.Starred) for x in c.args) or len(c.args) > len(params):
            raise Unsupported("positional arguments of %s" % fnode.name)
        for p_, x in zip(params, c.args):
            bound[p_] = self.ev(x)
        extra = []
        passthrough = None
        for k in c.keywords:
            if k.arg is None:
                v = self.ev(k.value)
                passthrough = v if v[:2] == ("op", "**") else ("op", "**", v)
            elif k.arg in params + kwonly and k.arg not in bound:
                bound[k.arg] = self.ev(k.value)
            elif a.kwarg is not None and k.arg not in bound:
                extra.append(("op", "kw." + k.arg, self.ev(k.value)))
            else:
                raise Unsupported("keyword %s of %s" % (k.arg, fnode.name))
        if (extra or passthrough is not None) and a.kwarg is None:
            raise Unsupported("** arguments of %s" % fnode.name)
        defaults = dict(zip(params[::-1], list(a.defaults)[::-1]))
        defaults.update({p_: d for p_, d in zip(kwonly, a.kw_defaults) if d is not None})
        for p_ in params + kwonly:
            if p_ not in bound:
                if p_ not in defaults:
                    raise Unsupported("missing argument %s of %s" % (p_, fnode.name))
                d = defaults[p_]
                bound[p_] = TermEval({}).ev(d) if isinstance(d, ast.Constant) else ("op", "default", p_)
        if a.kwarg is not None:
            rest = tuple(sorted(extra)) + ((passthrough,) if passthrough is not None else ())
            bound[a.kwarg.arg] = ("op", "**", ("op", "kwargs") + rest) if (extra or passthrough is None) else passthrough
        body = [st for st in fnode.body if not (isinstance(st, ast.Expr) and isinstance(st.value, ast.Constant))]
        if len(body) == 1 and isinstance(body[0], ast.Return) and body[0].value is not None and self._depth < 4:
            sub = TermEval(bound, self.unknown_truth, self.functions)
            sub._depth = self._depth + 1
            return sub.ev(body[0].value)
        return ("op", fnode.name) + tuple(("op", "arg." + p_, bound[p_]) for p_ in params + kwonly) + \
            ((bound[a.kwarg.arg],) if a.kwarg is not None else ())

    def call(self, c: ast.Call) -> Term:
        f = c.func
        fn = ast.unparse(f)
        if isinstance(f, ast.Name) and f.id in self.functions and f.id not in self.env:
            return self.known_call(self.functions[f.id], c)
        if isinstance(f, ast.Name) and f.id in self.env and self.env[f.id][:2] == ("op", "name") and self.env[f.id][2] in self.functions:
            return self.known_call(self.functions[self.env[f.id][2]], c)      # a local alias of a known function
        if any(isinstance(a, ast.Starred) for a in c.args) or any(k.arg is None for k in c.keywords):
            # a call with * / ** arguments is an uninterpreted operator of all its argument terms
            parts = [("op", "*", self.ev(a.value)) if isinstance(a, ast.Starred) else self.ev(a) for a in c.args]
            def _dstar(v):
                return v if v[:2] == ("op", "**") else ("op", "**", v)
            parts += [_dstar(self.ev(k.value)) if k.arg is None else ("op", "kw." + k.arg, self.ev(k.value))
                      for k in sorted(c.keywords, key=lambda k: k.arg or "~")]
            head = [self.ev(c.func.value)] if isinstance(c.func, ast.Attribute) and not (isinstance(c.func.value, ast.Name) and c.func.value.id == "torch") else []
            return ("op", c.func.attr if isinstance(c.func, ast.Attribute) else fn) + tuple(head) + tuple(parts)
        if isinstance(f, ast.Attribute) and f.attr in ("lower", "upper", "strip", "casefold") and not c.args and not c.keywords:
            recv = self.ev(f.value)
            if recv[:2] == ("op", "const") and isinstance(_const_val(recv), str):
                return ("op", "const", repr(getattr(_const_val(recv), f.attr)()))
        # function form torch.f(x, ...) and method form x.f(...) are one operation
        is_torch = isinstance(f, ast.Attribute) and isinstance(f.value, ast.Name) and f.value.id == "torch"
        if is_torch:
            name, operands, kws = f.attr, list(c.args), c.keywords
        elif isinstance(f, ast.Attribute):
            name, operands, kws = f.attr, [f.value] + list(c.args), c.keywords
        else:
            if fn in ("max", "min") and len(c.args) == 2 and not c.keywords:
                a, b = sorted((self.ev(c.args[0]), self.ev(c.args[1])), key=_key)
                return ("op", fn, a, b)
            if fn in ("float", "bool") and len(c.args) == 1 and not c.keywords:
                return self.ev(c.args[0])
            return ("op", fn) + tuple(self.ev(a) for a in c.args) + tuple(("op", "kw." + k.arg, self.ev(k.value)) for k in c.keywords)
        if kws and name not in ("masked_fill", "where"):
            return ("op", name) + tuple(self.ev(a) for a in operands) + tuple(("op", "kw." + k.arg, self.ev(k.value)) for k in sorted(kws, key=lambda k: k.arg))
        n = len(operands)
        if name in ("matmul", "mm", "bmm") and n == 2:
            return mm(self.ev(operands[0]), self.ev(operands[1]))
        if name in ("transpose", "swapaxes", "swapdims") and n == 3 and {self._int(operands[1]), self._int(operands[2])} == {-1, -2}:
            return transpose(self.ev(operands[0]))
        if name in ("conj", "conj_physical", "resolve_conj") and n == 1:
            return conj(self.ev(operands[0])) if name != "resolve_conj" else self.ev(operands[0])
        if name == "adjoint" and n == 1:
            return adjoint(self.ev(operands[0]))
        if name == "unsqueeze" and n == 2 and self._int(operands[1]) is not None:
            return ("unsq", self.ev(operands[0]), self._int(operands[1]))
        if name in ("abs", "absolute") and n == 1:
            return absv(self.ev(operands[0]))
        if name == "reciprocal" and n == 1:
            return recip(self.ev(operands[0]))
        if name == "pow" and n == 2:
            b, p = self.ev(operands[0]), self.ev(operands[1])
            return recip(b) if p == ("num", Fraction(-1)) else ("op", "pow", b, p)
        if name in ("add", "sub", "subtract") and n == 2:
            a, b = self.ev(operands[0]), self.ev(operands[1])
            return add(a, b if name == "add" else neg(b))
        if name in ("mul", "multiply") and n == 2:
            return had(self.ev(operands[0]), self.ev(operands[1]))
        if name in ("div", "divide", "true_divide") and n == 2:
            return had(self.ev(operands[0]), recip(self.ev(operands[1])))
        if name == "neg" and n == 1:
            return neg(self.ev(operands[0]))
        if name == "zeros_like" and n == 1:
            return ZERO
        if name in _IDENTITY_METHODS and n == 1 and not is_torch:
            return self.ev(operands[0])
        if name == "masked_fill" and n + len(kws) == 3:
            kw = {k.arg: k.value for k in kws}
            m_ = operands[1] if n > 1 else kw.get("mask")
            v_ = operands[2] if n > 2 else kw.get("value")
            if m_ is not None and v_ is not None:
                return fill(self.ev(operands[0]), self.ev(m_), self.ev(v_))
        if name == "where" and is_torch and n == 3 and not kws:
            m_, a, b = self.ev(operands[0]), self.ev(operands[1]), self.ev(operands[2])
            if a[0] in ("num", "inf"):
                return fill(b, m_, a)
        if name == "float" and n == 1:
            return self.ev(operands[0])
        if name in ("max", "min", "maximum", "minimum") and n == 2 and is_torch:
            a, b = sorted((self.ev(operands[0]), self.ev(operands[1])), key=_key)
            return ("op", "max" if name.startswith("max") else "min", a, b)
        return ("op", name) + tuple(self.ev(a) for a in operands)

    # ------------------------------------------------------------------ tests
    def truth(self, t) -> bool:
        if isinstance(t, ast.UnaryOp) and isinstance(t.op, ast.Not):
            return not self.truth(t.operand)
        if isinstance(t, ast.BoolOp):
            vals = [self.truth(v) for v in t.values]
            return all(vals) if isinstance(t.op, ast.And) else any(vals)
        if isinstance(t, ast.Compare) and len(t.ops) == 1 and isinstance(t.ops[0], (ast.Is, ast.IsNot)):
            a, b = self.ev(t.left), self.ev(t.comparators[0])
            if b == NONE or a == NONE:
                other = a if b == NONE else b
                if other[0] == "op" and other[1] == "name":
                    raise Unsupported("None-ness of %s is not known" % other[2])
                same = other == NONE
                return same if isinstance(t.ops[0], ast.Is) else not same
        return self.truth_term(self.ev(t), t)

    def truth_term(self, v: Term, node) -> bool:
        if v == NONE:
            return False
        if v[:2] == ("op", "bool"):
            return bool(v[2])
        if v[0] == "not":
            return not self.truth_term(v[1], node)
        if v[:2] in (("op", "and"), ("op", "or")):
            vals = [self.truth_term(x, node) for x in v[2:]]
            return all(vals) if v[1] == "and" else any(vals)
        if v[0] == "num":
            return v[1] != 0
        if self.unknown_truth is not None:
            self._assumed = True
            return self.unknown_truth(v, node)
        raise Unsupported("test %s" % ast.unparse(node)[:60])

    # ------------------------------------------------------------------ statements
    def bind(self, target, v: Term):
        if isinstance(target, ast.Name):
            self.env[target.id] = v
        elif isinstance(target, (ast.Tuple, ast.List)):
            if v[0] == "op" and v[1] == "tuple" and len(v) - 2 == len(target.elts):
                for t_, x in zip(target.elts, v[2:]):
                    self.bind(t_, x)
            else:
                for i, t_ in enumerate(target.elts):
                    self.bind(t_, ("op", "item%d" % i, v))
        elif isinstance(target, ast.Subscript) and isinstance(target.value, ast.Name):
            # masked in-place store x[m] = v
            self.env[target.value.id] = fill(self.ev(target.value), self.ev(target.slice) if isinstance(target.slice, ast.Name)
                                             else ("op", "slice", ast.unparse(target.slice)), v)
        elif isinstance(target, ast.Attribute):
            self.env[ast.unparse(target)] = v
        else:
            raise Unsupported("store to %s" % ast.unparse(target)[:40])

    def run(self, stmts) -> bool:
        """returns True when a `return` was executed"""
        for s in stmts:
            if isinstance(s, ast.Expr):
                if isinstance(s.value, ast.Constant):
                    continue
                c = s.value
                # in-place method forms as statements
                if isinstance(c, ast.Call) and isinstance(c.func, ast.Attribute) and isinstance(c.func.value, ast.Name) and c.func.attr.endswith("_") \
                        and not c.func.attr.startswith("_"):
                    fake = ast.Call(func=ast.Attribute(value=c.func.value, attr=c.func.attr[:-1], ctx=ast.Load()), args=c.args, keywords=c.keywords)
                    self.env[c.func.value.id] = self.ev(fake)
                    continue
                self.ev(c)          # evaluated for Unsupported only; calls are uninterpreted (no effect on tracked names)
            elif isinstance(s, ast.Pass):
                continue
            elif isinstance(s, ast.Assign):
                v = self.ev(s.value)
                for t in s.targets:
                    self.bind(t, v)
            elif isinstance(s, ast.AnnAssign):
                if s.value is not None:
                    self.bind(s.target, self.ev(s.value))
            elif isinstance(s, ast.AugAssign):
                cur = self.ev(s.target)
                r = self.ev(s.value)
                if isinstance(s.op, ast.Add):
                    v = add(cur, r)
                elif isinstance(s.op, ast.Sub):
                    v = add(cur, neg(r))
                elif isinstance(s.op, ast.Mult):
                    v = had(cur, r)
                elif isinstance(s.op, ast.Div):
                    v = had(cur, recip(r))
                elif isinstance(s.op, ast.MatMult):
                    v = mm(cur, r)
                else:
                    raise Unsupported("augmented %s" % type(s.op).__name__)
                self.bind(s.target, v)
            elif isinstance(s, ast.If):
                self._assumed = False
                if self.truth(s.test):
                    taken, other = s.body, s.orelse
                else:
                    taken, other = s.orelse, s.body
                (self.assumed_skipped if self._assumed else self.skipped).extend(other)
                if self.run(taken):
                    return True
            elif isinstance(s, ast.Return):
                self.returned = self.ev(s.value) if s.value is not None else NONE
                return True
            elif isinstance(s, ast.Raise):
                raise Unsupported("raise on the evaluated path")
            elif isinstance(s, ast.Assert):
                continue
            elif isinstance(s, (ast.Import, ast.ImportFrom)):
                continue
            elif isinstance(s, ast.Continue):
                raise LoopSignal("continue")
            elif isinstance(s, ast.Break):
                raise LoopSignal("break")
            elif isinstance(s, (ast.For, ast.While)):
                # a loop is not unrolled: every name it stores to (or stores into) holds an unknown value afterwards
                for n in ast.walk(s):
                    base = None
                    if isinstance(n, ast.Name) and isinstance(n.ctx, ast.Store):
                        base = n.id
                    elif isinstance(n, (ast.Subscript, ast.Attribute)) and isinstance(n.ctx, ast.Store) and isinstance(n.value, ast.Name):
                        base = n.value.id
                    elif isinstance(n, ast.Call) and isinstance(n.func, ast.Attribute) and isinstance(n.func.value, ast.Name) and n.func.attr.endswith("_"):
                        base = n.func.value.id
                    if base is not None:
                        self.env[base] = ("op", "after-loop", base, getattr(s, "lineno", 0))
                if any(isinstance(n, ast.Return) for n in ast.walk(s)):
                    raise Unsupported("return inside a loop")
            elif isinstance(s, ast.With):
                if self.run(s.body):
                    return True
            else:
                raise Unsupported("statement %s" % type(s).__name__)
        return False


class NeedChoice(Exception):
    def __init__(self, key):
        super().__init__(key)
        self.key = key


def consistent(choices: Dict[Term, bool]) -> bool:
    """can the chosen outcomes of comparisons of one term with numeric constants hold together? (x < 1 false and x == 0 true cannot)"""
    by: Dict[Term, list] = {}
    for k, val in choices.items():
        if k[0] == "cmp" and k[3][0] == "num" and k[2][0] != "num":
            by.setdefault(k[2], []).append((k[1], k[3][1], val))
        elif k[0] == "cmp" and k[2][0] == "num" and k[3][0] != "num":
            flip = {"<": ">", "<=": ">=", "==": "==", "!=": "!="}[k[1]]
            by.setdefault(k[3], []).append((flip, k[2][1], val))
    ops = {"<": lambda x, c: x < c, "<=": lambda x, c: x <= c, ">": lambda x, c: x > c, ">=": lambda x, c: x >= c,
           "==": lambda x, c: x == c, "!=": lambda x, c: x != c}
    for _t, cons in by.items():
        pts = set()
        for _op, c, _v in cons:
            pts |= {c, c - Fraction(1, 2), c + Fraction(1, 2)}
        if any(all(ops[op](x, c) == v for op, c, v in cons) for x in pts):
            continue
        # a NaN compares False with everything (only != holds): `x < 1` false together with `x >= 1` false is the NaN case
        if all(v == (op == "!=") for op, c, v in cons):
            continue
        return False
    return True


def simulate_loop(pre, loop, post, env: Dict[str, Term], choices: Dict[Term, bool], functions=None, max_trips: int = 3):
    """evaluate `pre; while <loop.test>: <loop.body>; post` over terms, deciding every test the terms leave open from `choices`
    (keyed by the test's term; a missing key raises NeedChoice).  Returns ("return", term) | ("no return", None) |
    ("unfinished", None) when the loop is still running after max_trips trips."""
    def decide(term, node):
        if term not in choices:
            raise NeedChoice(term)
        return choices[term]
    ev = TermEval(env, decide, functions)
    if ev.run(pre):
        return "return", ev.returned
    for _trip in range(max_trips):
        if not ev.truth(loop.test):
            break
        try:
            if ev.run(loop.body):
                return "return", ev.returned
        except LoopSignal as sig:
            if sig.kind == "break":
                break
    else:
        if ev.truth(loop.test):
            return "unfinished", None
    if ev.run(post):
        return "return", ev.returned
    return "no return", None


def all_outcomes(run, max_choices: int = 10):
    """run(choices) -> outcome, raising NeedChoice; enumerates the consistent choice vectors lazily: [(choices, outcome)]"""
    out = []
    pending = [dict()]
    while pending:
        ch = pending.pop()
        try:
            out.append((ch, run(ch)))
        except NeedChoice as need:
            if len(ch) >= max_choices:
                raise Unsupported("more than %d tests the terms do not decide" % max_choices)
            for v in (True, False):
                c2 = dict(ch)
                c2[need.key] = v
                if consistent(c2):
                    pending.append(c2)
    return out
