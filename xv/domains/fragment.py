"""Abstract interpretation of straight-line numeric fragments with counted loops into the polynomial
normal form of `poly.py`.

* arithmetic is normalised (fold, expand, collect);
* arrays are uninterpreted: `a[i][j]` becomes the atom `a[<i>][<j>]` whose indices are themselves normal
  forms in the loop symbols (`$0` outermost loop variable, `$1` next, ...), so renaming a loop variable or
  a local does not change the result;
* a counted loop `for v in range(lo, hi[, step])` is *summarised*, not unrolled: a variable updated as
  `acc = acc + term(v)` (any commutative spelling, `+=`) becomes `init + SUM[v:lo:hi:step](term)`;
* `if` statements are evaluated on both branches and only agreeing bindings survive;
* calls / attributes are delegated to hooks supplied by the rule (e.g. "a call of the user function is the
  stage atom K[j]; record its arguments").

Anything outside this vocabulary raises `Uninterpretable` - the rule is then *undecided* (exit 2), never a
pass and never a violation.  No path is explored and no solver is involved.
"""
from __future__ import annotations
import ast
import copy
from typing import Dict, List, Optional, Tuple, Callable, Any
from .poly import Rat, Poly, C, S, Uninterpretable, F


class Arr:
    """(partially) subscripted uninterpreted array"""
    def __init__(self, base: str, idx: Tuple[Rat, ...] = ()):
        self.base = base
        self.idx = idx

    def __repr__(self):
        return self.base + "".join("[%r]" % (i,) for i in self.idx)


class ListVal:
    """python list built by .append: explicit items and/or a per-iteration generator (loop symbol, value)"""
    def __init__(self, name: str, items=None):
        self.name = name
        self.items: List[Any] = list(items or [])
        self.gen: Optional[Tuple[str, Any, Rat, Rat]] = None   # (loop symbol, value, lo, hi)
        self.appends: List[Tuple[Tuple[str, ...], Any]] = []   # (enclosing loop symbols, value)


class Tup:
    def __init__(self, items):
        self.items = list(items)


class SeqVal:
    """element-wise view of arrays: index normal form -> value normal form (slices / element-wise arithmetic of uninterpreted arrays)"""
    def __init__(self, fn, length=None):
        self.fn = fn
        self.length = length


class Opaque:
    def __init__(self, desc: str, node: Optional[ast.AST] = None):
        self.desc = desc
        self.node = node

    def __repr__(self):
        return "<opaque %s>" % self.desc


class Frag:
    def __init__(self, source: Optional[str] = None,
                 on_call: Optional[Callable] = None, on_attr: Optional[Callable] = None,
                 on_subscript: Optional[Callable] = None, on_store: Optional[Callable] = None, specialise: bool = False):
        self.source = source
        self.specialise = specialise      # constant-fold integer index arithmetic, decide constant tests, unroll constant loops
        self.env: Dict[str, Any] = {}
        self.depth = 0
        self.loop_syms: List[str] = []
        self.loop_ranges: Dict[str, Tuple[Rat, Rat, Rat]] = {}
        self.atoms: Dict[str, Tuple[str, Tuple[Rat, ...]]] = {}
        self.on_call = on_call
        self.on_attr = on_attr
        self.on_subscript = on_subscript
        self.on_store = on_store
        self.sums: Dict[str, Tuple[str, Rat, Rat, Rat, Rat]] = {}   # SUM atom -> (sym, lo, hi, step, term)
        self.log: List[str] = []
        self.loops: List[tuple] = []        # shared by all forks: (For node, symbol, (lo, hi, step), interpreter after one iteration)
        self.branches: List[tuple] = []     # shared by all forks: (If node, interpreter of body, interpreter of orelse)

    # ------------------------------------------------------------------ atoms
    def atom(self, base: str, idx: Tuple[Rat, ...]) -> Rat:
        name = base + "".join("[%s]" % self.idx_str(i) for i in idx)
        self.atoms[name] = (base, tuple(idx))
        return S(name)

    @staticmethod
    def idx_str(r: Rat) -> str:
        return repr(r).replace(" ", "")

    @staticmethod
    def const_of(r) -> Optional[F]:
        if isinstance(r, Rat) and not r.symbols() and r.d == Poly.const(1):
            return r.n.t.get((), F(0))
        if isinstance(r, Rat) and not r.symbols():
            dn = r.d.t.get((), F(0))
            return r.n.t.get((), F(0)) / dn if dn != 0 else None
        return None

    def const_test(self, t: ast.AST) -> Optional[bool]:
        """value of a test whose operands fold to constants (None = not decidable)"""
        try:
            if isinstance(t, ast.Compare) and len(t.ops) == 1:
                a, b = self.const_of(self.num(self.ev(t.left))), self.const_of(self.num(self.ev(t.comparators[0])))
                if a is None or b is None:
                    return None
                op = t.ops[0]
                return {ast.Lt: a < b, ast.LtE: a <= b, ast.Gt: a > b, ast.GtE: a >= b, ast.Eq: a == b, ast.NotEq: a != b}.get(type(op))
            if isinstance(t, ast.UnaryOp) and isinstance(t.op, ast.Not):
                v = self.const_test(t.operand)
                return None if v is None else (not v)
            if isinstance(t, ast.BoolOp):
                vs = [self.const_test(x) for x in t.values]
                if any(v is None for v in vs):
                    return None
                return all(vs) if isinstance(t.op, ast.And) else any(vs)
        except Uninterpretable:
            return None
        return None

    def num(self, v, what="value") -> Rat:
        """coerce to a scalar normal form"""
        if isinstance(v, Rat):
            return v
        if isinstance(v, Arr):
            return self.atom(v.base, v.idx)
        raise Uninterpretable("%s is not an arithmetic value: %r" % (what, v))

    def subst(self, val: Rat, sym: str, repl: Rat) -> Rat:
        """substitute a loop symbol, also (recursively) inside the indices of atoms and inside sums"""
        mapping: Dict[str, Rat] = {}
        for s in val.symbols():
            if s == sym:
                mapping[s] = repl
            elif s in self.atoms:
                base, idx = self.atoms[s]
                nidx = tuple(self.subst(i, sym, repl) for i in idx)
                if any(not a.eq(b) for a, b in zip(idx, nidx)):
                    mapping[s] = self.atom(base, nidx)
            elif s in self.sums:
                ssym, lo, hi, step, term = self.sums[s]
                if ssym != sym:
                    new = tuple(self.subst(x, sym, repl) for x in (lo, hi, step, term))
                    if any(not a.eq(b) for a, b in zip((lo, hi, step, term), new)):
                        mapping[s] = self.make_sum(ssym, *new)
        out = val
        for s, r in mapping.items():
            out = out.subs(s, r)
        return out

    def make_sum(self, sym: str, lo: Rat, hi: Rat, step: Rat, term: Rat) -> Rat:
        if term.is_zero():
            return C(0)
        name = "SUM{%s:%s:%s:%s}(%s)" % (sym, self.idx_str(lo), self.idx_str(hi), self.idx_str(step), repr(term).replace(" ", ""))
        self.sums[name] = (sym, lo, hi, step, term)
        return S(name)

    # ------------------------------------------------------------------ expressions
    def ev(self, e: ast.AST):
        if isinstance(e, ast.Constant):
            if isinstance(e.value, (int, float)) and not isinstance(e.value, bool):
                if self.source is not None:
                    from .exact import fold
                    return C(fold(e, self.source))
                return C(F(str(e.value)))
            return Opaque("const %r" % (e.value,), e)
        if isinstance(e, ast.Name):
            if e.id in self.env:
                v = self.env[e.id]
                if v is None:
                    raise Uninterpretable("name %s is not uniquely defined here (branches disagree / loop-local)" % e.id)
                return v
            raise Uninterpretable("unbound name %s" % e.id)
        if isinstance(e, ast.UnaryOp) and isinstance(e.op, ast.USub):
            return -self.num(self.ev(e.operand))
        if isinstance(e, ast.UnaryOp) and isinstance(e.op, ast.UAdd):
            return self.num(self.ev(e.operand))
        if isinstance(e, ast.BinOp):
            if isinstance(e.op, ast.Pow):
                a = self.num(self.ev(e.left))
                if isinstance(e.right, ast.Constant) and isinstance(e.right.value, int) and abs(e.right.value) <= 8:
                    return a ** e.right.value
                raise Uninterpretable("non-integer power %s" % ast.unparse(e))
            la, lb = self.ev(e.left), self.ev(e.right)
            if isinstance(la, (Tup, Opaque)) and isinstance(lb, (Tup, Opaque)) and isinstance(e.op, ast.Add) and (isinstance(la, Tup) or isinstance(lb, Tup)):
                return Opaque("shape tuple", e)                 # tuple concatenation: a shape, never a number
            if isinstance(e.op, ast.Mult) and ((isinstance(la, Tup) and not isinstance(lb, (Tup, SeqVal))) or (isinstance(lb, Tup) and not isinstance(la, (Tup, SeqVal)))):
                return Opaque("shape tuple", e)                 # tuple repetition
            if isinstance(la, SeqVal) or isinstance(lb, SeqVal):
                opf = {ast.Add: lambda x, y: x + y, ast.Sub: lambda x, y: x - y, ast.Mult: lambda x, y: x * y, ast.Div: lambda x, y: x / y}.get(type(e.op))
                if opf is None:
                    raise Uninterpretable("operator %s on sequences" % type(e.op).__name__)
                fa = la.fn if isinstance(la, SeqVal) else (lambda i, v=self.num(la): v)
                fb = lb.fn if isinstance(lb, SeqVal) else (lambda i, v=self.num(lb): v)
                return SeqVal(lambda i: opf(fa(i), fb(i)))
            a, b = self.num(la), self.num(lb)
            if isinstance(e.op, ast.Add):
                return a + b
            if isinstance(e.op, ast.Sub):
                return a - b
            if isinstance(e.op, ast.Mult):
                return a * b
            if isinstance(e.op, ast.Div):
                try:
                    return a / b
                except ZeroDivisionError:
                    raise Uninterpretable("division by zero in %s" % ast.unparse(e))
            if isinstance(e.op, (ast.FloorDiv, ast.Mod)):
                ka, kb = self.const_of(a), self.const_of(b)
                if ka is not None and kb is not None and kb != 0 and ka.denominator == 1 and kb.denominator == 1:
                    return C(int(ka) // int(kb)) if isinstance(e.op, ast.FloorDiv) else C(int(ka) % int(kb))
            raise Uninterpretable("operator %s in %s" % (type(e.op).__name__, ast.unparse(e)))
        if isinstance(e, ast.Subscript):
            if self.on_subscript is not None:
                r = self.on_subscript(self, e)
                if r is not None:
                    return r
            base = self.ev(e.value)
            if isinstance(e.slice, ast.Slice) and isinstance(base, (Arr, SeqVal)) and e.slice.step is None:
                # constant-offset slice of a (1-D) array: element i of the slice is element i + lower of the array
                lo = self.num(self.ev(e.slice.lower), "slice bound") if e.slice.lower is not None else C(0)
                if isinstance(base, Arr):
                    if base.idx:
                        raise Uninterpretable("slice of a partially indexed array %s" % ast.unparse(e))
                    return SeqVal(lambda i, b=base, lo=lo: self.atom(b.base, (i + lo,)))
                return SeqVal(lambda i, b=base, lo=lo: b.fn(i + lo))
            if isinstance(e.slice, (ast.Slice, ast.Tuple)):
                raise Uninterpretable("slice/tuple subscript %s" % ast.unparse(e))
            idx = self.num(self.ev(e.slice), "index")
            if isinstance(base, SeqVal):
                return base.fn(idx)
            if isinstance(base, Arr):
                return Arr(base.base, base.idx + (idx,))
            if isinstance(base, ListVal):
                # explicit item?
                if not idx.symbols() and idx.d == Poly.const(1) and base.gen is None:
                    k = idx.n.t.get((), F(0))
                    if k.denominator == 1 and 0 <= int(k) < len(base.items):
                        return base.items[int(k)]
                return Arr(base.name, (idx,))
            if isinstance(base, Tup):
                if not idx.symbols():
                    k = idx.n.t.get((), F(0))
                    if k.denominator == 1 and -len(base.items) <= int(k) < len(base.items):
                        return base.items[int(k)]
                raise Uninterpretable("symbolic index into a tuple: %s" % ast.unparse(e))
            raise Uninterpretable("subscript of %r" % (base,))
        if isinstance(e, (ast.Dict, ast.Set, ast.JoinedStr)):
            return Opaque("container/str literal", e)
        if isinstance(e, ast.Tuple):
            return Tup([self.ev(x) for x in e.elts])
        if isinstance(e, ast.List):
            return ListVal("<list>", [self.ev(x) for x in e.elts])
        if isinstance(e, ast.Call):
            if self.on_call is not None:
                r = self.on_call(self, e)
                if r is not None:
                    return r
            if isinstance(e.func, ast.Attribute) and e.func.attr in ("expand", "repeat") and isinstance(e.func.value, ast.Subscript) \
                    and isinstance(e.func.value.slice, ast.Slice) and e.func.value.slice.lower is None and isinstance(e.func.value.slice.upper, ast.Constant) \
                    and e.func.value.slice.upper.value == 1:
                b = self.ev(e.func.value)
                if isinstance(b, SeqVal):
                    return SeqVal(lambda i, b=b: b.fn(C(0)))      # one element broadcast to every position
            raise Uninterpretable("call %s" % ast.unparse(e))
        if isinstance(e, ast.Attribute):
            if self.on_attr is not None:
                r = self.on_attr(self, e)
                if r is not None:
                    return r
            raise Uninterpretable("attribute %s" % ast.unparse(e))
        raise Uninterpretable("expression %s" % ast.unparse(e))

    # ------------------------------------------------------------------ statements
    def bind(self, target: ast.AST, val):
        if isinstance(target, ast.Name):
            if isinstance(val, ListVal) and val.name == "<list>":
                val.name = target.id
            self.env[target.id] = val
        elif isinstance(target, (ast.Tuple, ast.List)):
            if isinstance(val, Tup) and len(val.items) == len(target.elts):
                for t, v in zip(target.elts, val.items):
                    self.bind(t, v)
            else:
                raise Uninterpretable("tuple assignment from %r" % (val,))
        elif isinstance(target, ast.Subscript) and self.on_store is not None and self.on_store(self, target, val, None):
            return
        elif isinstance(target, ast.Subscript) and isinstance(target.value, ast.Name) and isinstance(self.env.get(target.value.id), Opaque):
            return      # bookkeeping in an opaque local container: not part of the numeric fragment
        else:
            raise Uninterpretable("assignment target %s" % ast.unparse(target))

    def run(self, stmts):
        """returns the value of a `return` statement if one is executed at this level"""
        for s in stmts:
            if isinstance(s, ast.Return):
                return ("return", self.ev(s.value) if s.value is not None else None)
            if isinstance(s, ast.Assign):
                v = self.ev(s.value)
                for t in s.targets:
                    self.bind(t, v)
            elif isinstance(s, ast.AnnAssign):
                if s.value is not None:
                    self.bind(s.target, self.ev(s.value))
            elif isinstance(s, ast.AugAssign):
                if isinstance(s.target, ast.Subscript):
                    if self.on_store is not None and self.on_store(self, s.target, self.ev(s.value), s.op):
                        continue
                    raise Uninterpretable("augmented store %s" % ast.unparse(s))
                if not isinstance(s.target, ast.Name):
                    raise Uninterpretable("augmented assignment target %s" % ast.unparse(s.target))
                cur = self.num(self.ev(ast.Name(id=s.target.id, ctx=ast.Load())))
                v = self.num(self.ev(s.value))
                if isinstance(s.op, ast.Add):
                    r = cur + v
                elif isinstance(s.op, ast.Sub):
                    r = cur - v
                elif isinstance(s.op, ast.Mult):
                    r = cur * v
                elif isinstance(s.op, ast.Div):
                    r = cur / v
                else:
                    raise Uninterpretable("augmented operator in %s" % ast.unparse(s))
                self.env[s.target.id] = r
            elif isinstance(s, ast.Expr):
                if isinstance(s.value, ast.Constant):
                    continue   # docstring
                c = s.value
                if isinstance(c, ast.Call) and isinstance(c.func, ast.Attribute) and c.func.attr == "append" and \
                        isinstance(c.func.value, ast.Name) and isinstance(self.env.get(c.func.value.id), ListVal) and len(c.args) == 1:
                    lv: ListVal = self.env[c.func.value.id]
                    v = self.ev(c.args[0])
                    lv.appends.append((tuple(self.loop_syms), v))
                    if not self.loop_syms:
                        lv.items.append(v)
                    continue
                if self.on_call is not None and isinstance(c, ast.Call) and self.on_call(self, c) is not None:
                    continue
                raise Uninterpretable("expression statement %s" % ast.unparse(s))
            elif isinstance(s, ast.For):
                self.run_for(s)
            elif isinstance(s, ast.If):
                r = self.run_if(s)
                if r is not None:
                    return r
            elif isinstance(s, ast.Pass):
                continue
            elif isinstance(s, ast.Assert):
                continue
            else:
                raise Uninterpretable("statement %s" % type(s).__name__)
        return None

    def fork(self) -> "Frag":
        f = copy.copy(self)
        f.env = dict(self.env)
        # ListVals are shared deliberately only when not appended in a branch; copy them to be safe
        for k, v in list(f.env.items()):
            if isinstance(v, ListVal):
                nv = ListVal(v.name, v.items)
                nv.gen = v.gen
                nv.appends = list(v.appends)
                f.env[k] = nv
        f.loop_syms = list(self.loop_syms)
        return f

    @staticmethod
    def same(a, b) -> bool:
        if isinstance(a, SeqVal) and isinstance(b, SeqVal):
            i = S("$probe")
            try:
                return a.fn(i).eq(b.fn(i))
            except Exception:
                return False
        if isinstance(a, Rat) and isinstance(b, Rat):
            return a.eq(b)
        if isinstance(a, Arr) and isinstance(b, Arr):
            return a.base == b.base and len(a.idx) == len(b.idx) and all(x.eq(y) for x, y in zip(a.idx, b.idx))
        if isinstance(a, ListVal) and isinstance(b, ListVal):
            return a.name == b.name and len(a.items) == len(b.items) and len(a.appends) == len(b.appends) and \
                all(Frag.same(x[1], y[1]) for x, y in zip(a.appends, b.appends))
        if isinstance(a, Tup) and isinstance(b, Tup):
            return len(a.items) == len(b.items) and all(Frag.same(x, y) for x, y in zip(a.items, b.items))
        return a is b

    def run_if(self, s: ast.If):
        if self.specialise:
            v = self.const_test(s.test)
            if v is not None:
                return self.run(s.body if v else s.orelse)
        a, b = self.fork(), self.fork()
        ra = a.run(s.body)
        rb = b.run(s.orelse)
        if ra is not None or rb is not None:
            raise Uninterpretable("return inside a conditional of an interpreted fragment")
        keys = set(a.env) | set(b.env)
        for k in keys:
            if k in a.env and k in b.env and self.same(a.env[k], b.env[k]):
                self.env[k] = a.env[k]
            elif k in a.env and k in b.env and isinstance(a.env[k], (Rat, Arr)) and isinstance(b.env[k], (Rat, Arr)):
                # both branches bind the name to different values: an opaque, data-dependent value
                self.env[k] = S("PHI{%s@%d}" % (k, s.lineno))
            elif k in a.env and k in b.env and isinstance(a.env[k], SeqVal) and isinstance(b.env[k], SeqVal):
                self.env[k] = SeqVal(lambda i, k=k, ln=s.lineno: self.atom("PHI{%s@%d}" % (k, ln), (i,)))
            else:
                self.env[k] = None   # one-sided binding: unusable afterwards
        self.branches.append((s, a, b))
        return None

    def range_args(self, it: ast.AST) -> Tuple[Rat, Rat, Rat]:
        if not (isinstance(it, ast.Call) and isinstance(it.func, ast.Name) and it.func.id == "range" and 1 <= len(it.args) <= 3 and not it.keywords):
            raise Uninterpretable("loop iterable is not range(...): %s" % ast.unparse(it))
        vals = [self.num(self.ev(x), "range bound") for x in it.args]
        if len(vals) == 1:
            return C(0), vals[0], C(1)
        if len(vals) == 2:
            return vals[0], vals[1], C(1)
        return vals[0], vals[1], vals[2]

    on_len = None      # optional hook (fr, expr) -> Rat: number of entries of a sequence expression (for `zip` loops)

    def _zip_as_range(self, s: ast.For):
        """`for a, b in zip(X[k:], Y[k:]): BODY` is the index loop `for i in range(k, len): a = X[i]; b = Y[i]; BODY` when the sequences
        have one known length; `for a in X[k:]` likewise.  Returns the rewritten For or None."""
        it = s.iter
        args = list(it.args) if isinstance(it, ast.Call) and isinstance(it.func, ast.Name) and it.func.id == "zip" and not it.keywords else \
            ([it] if isinstance(it, (ast.Name, ast.Subscript, ast.Attribute)) else None)
        if args is None or self.on_len is None:
            return None
        targets = list(s.target.elts) if isinstance(s.target, ast.Tuple) else [s.target]
        if len(targets) != len(args) or not all(isinstance(t, ast.Name) for t in targets):
            return None
        bases, lows = [], []
        for a in args:
            lo = 0
            if isinstance(a, ast.Subscript) and isinstance(a.slice, ast.Slice):
                sl = a.slice
                if sl.upper is not None or sl.step is not None or not (sl.lower is None or (isinstance(sl.lower, ast.Constant) and isinstance(sl.lower.value, int) and sl.lower.value >= 0)):
                    return None
                lo = sl.lower.value if sl.lower is not None else 0
                a = a.value
            bases.append(a)
            lows.append(lo)
        if len(set(lows)) != 1:
            return None
        lens = [self.on_len(self, b) for b in bases]
        if any(l is None for l in lens) or not all(l.eq(lens[0]) for l in lens):
            return None
        idx = "__zip%d" % len(self.loop_syms)
        self.env["__ziplen"] = lens[0]
        pre = [ast.Assign(targets=[ast.Name(id=t.id, ctx=ast.Store())], value=ast.Subscript(value=b, slice=ast.Name(id=idx, ctx=ast.Load()), ctx=ast.Load()))
               for t, b in zip(targets, bases)]
        new = ast.For(target=ast.Name(id=idx, ctx=ast.Store()),
                      iter=ast.Call(func=ast.Name(id="range", ctx=ast.Load()), args=[ast.Constant(value=lows[0]), ast.Name(id="__ziplen", ctx=ast.Load())], keywords=[]),
                      body=pre + list(s.body), orelse=[])
        for n in ast.walk(new):
            ast.copy_location(n, s)
        return ast.fix_missing_locations(new)

    def run_for(self, s: ast.For):
        if not s.orelse and not (isinstance(s.target, ast.Name) and isinstance(s.iter, ast.Call) and isinstance(s.iter.func, ast.Name) and s.iter.func.id == "range"):
            z = self._zip_as_range(s)
            if z is not None:
                s = z
        if s.orelse or not isinstance(s.target, ast.Name):
            raise Uninterpretable("for-else / non-name loop target")
        lo, hi, step = self.range_args(s.iter)
        if self.specialise:
            kl, kh, ks = self.const_of(lo), self.const_of(hi), self.const_of(step)
            if None not in (kl, kh, ks) and all(k.denominator == 1 for k in (kl, kh, ks)) and ks != 0 and len(range(int(kl), int(kh), int(ks))) <= 256:
                for k in range(int(kl), int(kh), int(ks)):
                    self.env[s.target.id] = C(k)
                    r = self.run(s.body)
                    if r is not None:
                        raise Uninterpretable("return inside an interpreted loop")
                return
        sym = "$%d" % len(self.loop_syms)
        inner = self.fork()
        inner.loop_syms = self.loop_syms + [sym]
        inner.loop_ranges = dict(self.loop_ranges)
        inner.loop_ranges[sym] = (lo, hi, step)
        inner.env[s.target.id] = S(sym)
        assigned = set()
        for n in ast.walk(s):
            if isinstance(n, ast.Name) and isinstance(n.ctx, ast.Store):
                assigned.add(n.id)
        assigned.discard(s.target.id)
        carried = {}
        for v in assigned:
            if v in self.env and isinstance(self.env[v], (Rat, Arr)):
                carried[v] = "@prev:%s:%s" % (v, sym)
                inner.env[v] = S(carried[v])
        r = inner.run(s.body)
        if r is not None:
            raise Uninterpretable("return inside an interpreted loop")
        self.loops.append((s, sym, (lo, hi, step), inner))
        prevsyms = set(carried.values())
        for v in assigned:
            val = inner.env.get(v)
            if v in carried:
                if not isinstance(val, (Rat, Arr)):
                    self.env[v] = None
                    continue
                val = inner.num(val)
                delta = val - S(carried[v])
                # normalise: delta must not mention any loop-carried placeholder
                dsyms = self._deep_symbols(inner, delta)
                if dsyms & prevsyms:
                    self.env[v] = None      # a recurrence that is not a plain reduction: unusable afterwards
                    continue
                init = self.num(self.env[v])
                self.env[v] = init + self.make_sum(sym, lo, hi, step, delta)
            else:
                self.env[v] = None          # loop-local
        # lists appended once per iteration become generators
        for k, lv in inner.env.items():
            if isinstance(lv, ListVal) and k in self.env and isinstance(self.env[k], ListVal):
                outer: ListVal = self.env[k]
                new = lv.appends[len(outer.appends):]
                for syms, val in new:
                    outer.appends.append((syms, val))
                    if syms and syms[-1] == sym and len(syms) == len(inner.loop_syms) and isinstance(val, (Rat, Arr)):
                        outer.gen = (sym, inner.num(val), lo, hi)

    def _deep_symbols(self, interp: "Frag", val: Rat):
        out = set()
        todo = list(val.symbols())
        while todo:
            s = todo.pop()
            if s in out:
                continue
            out.add(s)
            if s in interp.atoms:
                for i in interp.atoms[s][1]:
                    todo.extend(i.symbols())
            if s in interp.sums:
                for x in interp.sums[s][1:]:
                    todo.extend(x.symbols())
        return out

    # ------------------------------------------------------------------ rewriting
    def rewrite(self, val: Rat, fn: Callable[[str, Tuple[Rat, ...]], Optional[Rat]]) -> Rat:
        """Replace atoms bottom-up: fn(base, indices) -> replacement or None; sums are rebuilt, empty sums vanish."""
        mapping: Dict[str, Rat] = {}
        for s in val.symbols():
            if s in self.atoms:
                base, idx = self.atoms[s]
                nidx = tuple(self.rewrite(i, fn) for i in idx)
                r = fn(base, nidx)
                if r is None:
                    r = self.atom(base, nidx)
                if not r.eq(S(s)):
                    mapping[s] = r
            elif s in self.sums:
                ssym, lo, hi, step, term = self.sums[s]
                nlo, nhi, nstep, nterm = (self.rewrite(x, fn) for x in (lo, hi, step, term))
                r = C(0) if nlo.eq(nhi) else self.make_sum(ssym, nlo, nhi, nstep, nterm)
                if not r.eq(S(s)):
                    mapping[s] = r
        out = val
        for s, r in mapping.items():
            out = out.subs(s, r)
        return out
