"""Cumulative quadrature weight matrices  W  (cumsum(y)[r] = sum_c W[r, c] y[c])  as per-interval stencils.

The builders in samples_quad.py fill W with loops of the form

    for i in range(lo, nx[, step]):
        W[..., ROWS, COLS] += VALUE

Each such statement is summarised - for a symbolic loop index, never unrolled - as

    (row set, {column offset relative to the loop index: coefficient normal form})

with ROWS either `i:` ("all rows from i on": a cumulative contribution) or `i` (that row only), and the coefficient a
rational function of the interval widths h[k] = x[k+1] - x[k].  Sequences are functions index -> normal form (as in
splinesys); strided slices map the index affinely; `i // 2` is folded using the loop's own start and step.
Expected coefficients are obtained by *integrating* the interpolating polynomial exactly (Hermite basis, Lagrange
parabola) in the same normal form.  Nothing is executed.
"""
from __future__ import annotations
import ast
from typing import Dict, List, Optional, Tuple, Any, Callable
from .poly import Rat, Poly, C, S, Uninterpretable, F
from .splinesys import Seq, Opaque, _const_int
from ..model import norm_stmt

NX = S("nx")


def X(i: Rat) -> Rat:
    return S("X[%s]" % repr(i).replace(" ", ""))


def Hw(i: Rat) -> Rat:
    """width of interval i"""
    return S("h[%s]" % repr(i).replace(" ", ""))


class Vec:
    """small literal vector, e.g. torch.tensor([1., -1.]): one entry per column of a column slice"""
    def __init__(self, items: List[Rat]):
        self.items = items


class ColBlock:
    """value broadcast over a block of columns: list of per-column coefficients, or a scalar for all"""
    def __init__(self, per_col: Optional[List[Rat]], scalar: Optional[Rat]):
        self.per_col, self.scalar = per_col, scalar


class Store:
    def __init__(self, stmt, loop, rows, cols, coefs, op):
        self.stmt = stmt
        self.loop = loop          # None or (symbol, lo, hi, step)
        self.rows = rows          # ("from", Rat) | ("at", Rat)
        self.cols = cols          # list of Rat column indices
        self.coefs = coefs        # list of Rat, same length as cols
        self.op = op


class WeightInterp:
    def __init__(self, fi, source: str):
        self.fi = fi
        self.source = source
        self.env: Dict[str, Any] = {}
        self.mat: Optional[str] = None
        self.stores: List[Store] = []
        self.loop = None
        self.ret = None
        xp = fi.params()[0]
        self.xp = xp
        self.env[xp] = Seq(lambda i: X(i), NX)
        self.width_names = set()

    # ---------------------------------------------------------------- expressions
    def idx(self, e: ast.AST) -> Rat:
        v = self.ev(e)
        if not isinstance(v, Rat):
            raise Uninterpretable("index %s" % ast.unparse(e))
        return v

    def last_of(self, sl):
        if isinstance(sl, ast.Tuple):
            if len(sl.elts) < 2 or not (isinstance(sl.elts[0], ast.Constant) and sl.elts[0].value is Ellipsis):
                raise Uninterpretable("subscript %s" % ast.unparse(sl))
            return list(sl.elts[1:])
        return [sl]

    def ev(self, e: ast.AST):
        if isinstance(e, ast.Constant):
            if isinstance(e.value, (int, float)) and not isinstance(e.value, bool):
                from .exact import fold
                return C(fold(e, self.source))
            return Opaque("const")
        if isinstance(e, ast.Name):
            if e.id in self.env:
                return self.env[e.id]
            raise Uninterpretable("unbound name %s" % e.id)
        if isinstance(e, ast.UnaryOp) and isinstance(e.op, ast.USub):
            v = self.ev(e.operand)
            if isinstance(v, Seq):
                return Seq(lambda i, v=v: -v.fn(i), v.length)
            if isinstance(v, Rat):
                return -v
            if isinstance(v, ColBlock):
                return ColBlock([-x for x in v.per_col] if v.per_col else None, -v.scalar if v.scalar is not None else None)
            raise Uninterpretable("negation %s" % ast.unparse(e))
        if isinstance(e, ast.BinOp):
            if isinstance(e.op, ast.FloorDiv):
                a, b = self.ev(e.left), self.ev(e.right)
                if isinstance(a, Rat) and isinstance(b, Rat) and self.loop is not None and b.eq(C(2)):
                    # loop index i = lo + step*m with even step: (lo + step*m + c) // 2 = (lo + c) // 2 + (step // 2) * m
                    sym, lo, hi, step = self.loop
                    ks, kl = Fragc(step), Fragc(lo)
                    if ks is not None and kl is not None and ks % 2 == 0:
                        rest = a - S(sym)
                        kr = Fragc(rest)
                        if kr is not None:
                            base = (int(kl) + int(kr)) // 2
                            return C(base) + (S(sym) - C(int(kl))) / C(2)
                raise Uninterpretable("floor division %s" % ast.unparse(e))
            if isinstance(e.op, ast.Pow):
                a = self.ev(e.left)
                k = _const_int(e.right)
                if k is None or not 0 <= k <= 6:
                    raise Uninterpretable("power %s" % ast.unparse(e))
                if isinstance(a, Rat):
                    return a ** k
                if isinstance(a, Seq):
                    return Seq(lambda i, a=a: a.fn(i) ** k, a.length)
                raise Uninterpretable("power of %r" % (a,))
            a, b = self.ev(e.left), self.ev(e.right)
            ops = {ast.Add: lambda x, y: x + y, ast.Sub: lambda x, y: x - y, ast.Mult: lambda x, y: x * y, ast.Div: lambda x, y: x / y}
            op = ops.get(type(e.op))
            if isinstance(a, Opaque) or isinstance(b, Opaque):
                return Opaque("shape arithmetic")
            if op is None:
                raise Uninterpretable("operator %s" % type(e.op).__name__)
            if isinstance(a, Rat) and isinstance(b, Rat):
                return op(a, b)
            if isinstance(a, Seq) and isinstance(b, Seq):
                if a.length is not None and b.length is not None and not a.length.eq(b.length):
                    raise Uninterpretable("element-wise operation on sequences of different lengths: %s" % ast.unparse(e))
                return Seq(lambda i: op(a.fn(i), b.fn(i)), a.length if a.length is not None else b.length)
            if isinstance(a, Seq) and isinstance(b, Rat):
                return Seq(lambda i: op(a.fn(i), b), a.length)
            if isinstance(a, Rat) and isinstance(b, Seq):
                return Seq(lambda i: op(a, b.fn(i)), b.length)
            # column blocks: scalar-per-row value times a literal vector over the columns
            if isinstance(e.op, ast.Mult):
                for u, v in ((a, b), (b, a)):
                    if isinstance(u, ColBlock) and u.scalar is not None and isinstance(v, Vec):
                        return ColBlock([u.scalar * w for w in v.items], None)
                    if isinstance(u, ColBlock) and isinstance(v, Rat):
                        return ColBlock([x * v for x in u.per_col] if u.per_col else None, u.scalar * v if u.scalar is not None else None)
            raise Uninterpretable("operands of %s" % ast.unparse(e))
        if isinstance(e, ast.Subscript):
            base = self.ev(e.value)
            if isinstance(base, Seq):
                parts = self.last_of(e.slice)
                if len(parts) != 1:
                    raise Uninterpretable("subscript %s" % ast.unparse(e))
                last = parts[0]
                if isinstance(last, ast.Slice):
                    step = _const_int(last.step) if last.step is not None else 1
                    if step is None or step < 1:
                        raise Uninterpretable("slice step %s" % ast.unparse(e))
                    lo_c = _const_int(last.lower) if last.lower is not None else 0
                    if lo_c is not None and lo_c >= 0 and (last.upper is None or _const_int(last.upper) is not None):
                        # constant bounds: affine re-indexing  j -> lo + step*j
                        hi_c = _const_int(last.upper) if last.upper is not None else None
                        ln = None
                        if step == 1 and base.length is not None:
                            ln = base.length - C(lo_c) if hi_c is None else (base.length + C(hi_c) - C(lo_c) if hi_c < 0 else C(hi_c - lo_c))
                        return Seq(lambda j, lo_c=lo_c, step=step: base.fn(C(lo_c) + C(step) * j), ln)
                    # symbolic bounds: a one-element window [k : k+1] selects element k (kept as a scalar)
                    if step == 1 and last.lower is not None and last.upper is not None:
                        lo, hi = self.idx(last.lower), self.idx(last.upper)
                        if (hi - lo).eq(C(1)):
                            return ColBlock(None, base.fn(lo))
                    raise Uninterpretable("slice %s" % ast.unparse(e))
                k = self.idx(last)
                kc = Fragc(k)
                if kc is not None and kc < 0:
                    if base.length is None:
                        raise Uninterpretable("negative index into a strided sequence")
                    return base.fn(base.length + k)
                return base.fn(k)
            if isinstance(base, Opaque):
                if ast.unparse(e.value).endswith(".shape") and _const_int(e.slice) == -1:
                    return NX
                return Opaque("subscript of opaque")
            raise Uninterpretable("subscript %s" % ast.unparse(e))
        if isinstance(e, ast.Attribute):
            if isinstance(e.value, ast.Name) and e.value.id == self.xp and e.attr in ("shape", "dtype", "device"):
                return Opaque(self.xp + "." + e.attr)
            raise Uninterpretable("attribute %s" % ast.unparse(e))
        if isinstance(e, (ast.List, ast.Tuple)):
            return Opaque("list")
        if isinstance(e, ast.Call):
            fn = ast.unparse(e.func)
            if fn == "torch.zeros":
                return "NEWMAT"
            if fn == "list":
                return Opaque("list")
            if fn == "torch.tensor" and e.args and isinstance(e.args[0], (ast.List, ast.Tuple)):
                items = [self.ev(x) for x in e.args[0].elts]
                if all(isinstance(x, Rat) for x in items):
                    return Vec(items)
            if isinstance(e.func, ast.Attribute) and e.func.attr == "unsqueeze" and len(e.args) == 1 and _const_int(e.args[0]) == -1:
                v = self.ev(e.func.value)
                if isinstance(v, ColBlock):
                    return v
                raise Uninterpretable("unsqueeze of %r" % (v,))
            raise Uninterpretable("call %s" % ast.unparse(e)[:80])
        raise Uninterpretable("expression %s" % ast.unparse(e)[:80])

    # ---------------------------------------------------------------- statements
    def run(self, stmts):
        for s in stmts:
            if isinstance(s, ast.Expr) and isinstance(s.value, ast.Constant):
                continue
            if isinstance(s, ast.Return):
                self.ret = ast.unparse(s.value)
                return
            if isinstance(s, ast.Assign) and len(s.targets) == 1 and isinstance(s.targets[0], ast.Name):
                v = self.ev(s.value)
                nm = s.targets[0].id
                if v == "NEWMAT":
                    if self.mat is not None:
                        raise Uninterpretable("more than one weight matrix")
                    self.mat = nm
                    self.env[nm] = Opaque("matrix")
                    continue
                self.env[nm] = v
                # recognise interval widths x[i+1] - x[i] and name them h[i]
                if isinstance(v, Seq) and v.length is not None and v.length.eq(NX - C(1)):
                    i = S("i")
                    if v.fn(i).eq(X(i + C(1)) - X(i)):
                        self.env[nm] = Seq(lambda j: Hw(j), NX - C(1))
                    else:
                        # a multiple / polynomial of the widths: rewrite X differences through h
                        self.env[nm] = Seq(lambda j, v=v: self.to_h(v.fn(j), j), v.length)
                continue
            if isinstance(s, (ast.Assign, ast.AugAssign)):
                tg = s.targets[0] if isinstance(s, ast.Assign) else s.target
                if isinstance(tg, ast.Subscript) and isinstance(tg.value, ast.Name) and tg.value.id == self.mat:
                    op = "=" if isinstance(s, ast.Assign) else {ast.Add: "+=", ast.Sub: "-="}.get(type(s.op))
                    if op is None:
                        raise Uninterpretable("store %s" % norm_stmt(s))
                    self.store(tg, s.value, op, s)
                    continue
                raise Uninterpretable("statement %s" % norm_stmt(s))
            if isinstance(s, ast.For):
                if self.loop is not None or s.orelse or not isinstance(s.target, ast.Name):
                    raise Uninterpretable("nested / unusual loop %s" % norm_stmt(s))
                it = s.iter
                if not (isinstance(it, ast.Call) and isinstance(it.func, ast.Name) and it.func.id == "range" and 2 <= len(it.args) <= 3):
                    raise Uninterpretable("loop iterable %s" % ast.unparse(it))
                lo, hi = self.idx(it.args[0]), self.idx(it.args[1])
                step = self.idx(it.args[2]) if len(it.args) == 3 else C(1)
                sym = "i"
                # a unit-step loop whose body branches on the parity of the index is two stride-2 loops (accumulating stores commute)
                par = [b for b in s.body if isinstance(b, ast.If) and self._parity_test(b.test, s.target.id) is not None]
                if par and step.eq(C(1)) and Fragc(lo) is not None and Fragc(lo).denominator == 1:
                    if len(par) != 1:
                        raise Uninterpretable("several parity tests in one loop %s" % norm_stmt(s))
                    if any(isinstance(n, ast.Assign) and isinstance(n.targets[0], ast.Subscript) and isinstance(n.targets[0].value, ast.Name)
                           and n.targets[0].value.id == self.mat for n in ast.walk(s)):
                        raise Uninterpretable("plain store inside a parity-split loop %s" % norm_stmt(s))
                    pi = s.body.index(par[0])
                    when_even = self._parity_test(par[0].test, s.target.id)          # True: the test holds for even indices
                    l0 = int(Fragc(lo))
                    for parity in (0, 1):
                        arm = par[0].body if (parity == 0) == when_even else par[0].orelse
                        start = l0 if l0 % 2 == parity else l0 + 1
                        saved = dict(self.env)
                        self.env[s.target.id] = S(sym)
                        self.loop = (sym, C(start), hi, C(2))
                        self.run(list(s.body[:pi]) + list(arm) + list(s.body[pi + 1:]))
                        self.loop = None
                        self.env = saved
                    continue
                saved = dict(self.env)
                self.env[s.target.id] = S(sym)
                self.loop = (sym, lo, hi, step)
                self.run(s.body)
                self.loop = None
                self.env = saved
                continue
            raise Uninterpretable("statement %s" % norm_stmt(s))

    @staticmethod
    def _parity_test(t, var) -> Optional[bool]:
        """`var % 2 == 0` / `var % 2 != 1` -> True (holds for even), `var % 2 == 1` / `!= 0` / bare `var % 2` -> False; None otherwise"""
        def is_mod(e):
            return isinstance(e, ast.BinOp) and isinstance(e.op, ast.Mod) and isinstance(e.left, ast.Name) and e.left.id == var \
                and isinstance(e.right, ast.Constant) and e.right.value == 2
        if is_mod(t):
            return False
        if isinstance(t, ast.UnaryOp) and isinstance(t.op, ast.Not) and is_mod(t.operand):
            return True
        if isinstance(t, ast.Compare) and len(t.ops) == 1 and is_mod(t.left) and isinstance(t.comparators[0], ast.Constant) and t.comparators[0].value in (0, 1):
            eq = isinstance(t.ops[0], ast.Eq)
            if not isinstance(t.ops[0], (ast.Eq, ast.NotEq)):
                return None
            return (t.comparators[0].value == 0) == eq
        return None

    def to_h(self, v: Rat, j: Rat) -> Rat:
        """express X[j+1] - X[j] through h[j] (only the pattern X[k+1] - X[k] is rewritten)"""
        out = v
        syms = [s for s in v.symbols() if s.startswith("X[")]
        if not syms:
            return v
        hi = X(j + C(1))
        his = list(hi.symbols())[0]
        if his in v.symbols():
            out = out.subs(his, X(j) + Hw(j))
        if any(s.startswith("X[") for s in out.symbols()):
            raise Uninterpretable("sequence is not a function of the interval widths: %r" % v)
        return out

    def store(self, tg: ast.Subscript, value: ast.AST, op: str, stmt):
        parts = self.last_of(tg.slice)
        if len(parts) != 2:
            raise Uninterpretable("weight store must address (row, column): %s" % norm_stmt(stmt))
        re_, ce = parts
        if isinstance(re_, ast.Slice):
            if re_.upper is not None or re_.step is not None or re_.lower is None:
                raise Uninterpretable("row slice of %s" % norm_stmt(stmt))
            rows = ("from", self.idx(re_.lower))
        else:
            rows = ("at", self.idx(re_))
        if isinstance(ce, ast.Slice):
            if ce.step is not None:
                raise Uninterpretable("column slice of %s" % norm_stmt(stmt))
            lo = self.idx(ce.lower) if ce.lower is not None else C(0)
            if ce.upper is None:
                raise Uninterpretable("open column slice of %s" % norm_stmt(stmt))
            hi = self.idx(ce.upper)
            n = Fragc(hi - lo)
            if n is None or n.denominator != 1 or not 1 <= int(n) <= 4:
                raise Uninterpretable("column slice width of %s" % norm_stmt(stmt))
            cols = [lo + C(k) for k in range(int(n))]
        else:
            cols = [self.idx(ce)]
        v = self.ev(value)
        if isinstance(v, Rat):
            coefs = [v] * len(cols)
        elif isinstance(v, ColBlock):
            if v.per_col is not None:
                if len(v.per_col) != len(cols):
                    raise Uninterpretable("value has %d columns, target %d: %s" % (len(v.per_col), len(cols), norm_stmt(stmt)))
                coefs = list(v.per_col)
            else:
                coefs = [v.scalar] * len(cols)
        else:
            raise Uninterpretable("stored value of %s" % norm_stmt(stmt))
        self.stores.append(Store(stmt, self.loop, rows, cols, coefs, op))


def Fragc(r) -> Optional[F]:
    if isinstance(r, Rat) and not r.symbols():
        dn = r.d.t.get((), F(0))
        if dn != 0:
            return r.n.t.get((), F(0)) / dn
    return None


# ---------------------------------------------------------------------------------------------- expected coefficients
def _integrate_poly_t(p: Poly, sym: str = "t") -> Poly:
    """definite integral over [0, 1] in `sym`"""
    out = {}
    for k, v in p.t.items():
        d = dict(k)
        e = d.pop(sym, 0)
        key = tuple(sorted(d.items()))
        out[key] = out.get(key, 0) + v / (e + 1)
    return Poly(out)


def hermite_interval_integral(hermite: Callable[[Rat], Rat]) -> Dict[str, Rat]:
    """coefficients of yl, yr, kl, kr in  int_{x_l}^{x_r} H dx  as functions of the width DX"""
    h = hermite(S("t")).subs("xr", S("xl") + S("DX"))
    if h.d != Poly.const(1):
        raise Uninterpretable("Hermite form is not polynomial in t")
    integ = Rat(_integrate_poly_t(h.n)) * S("DX")
    out = {}
    for s in ("yl", "yr", "kl", "kr"):
        out[s] = Rat(integ.n.coeff_of(s, 1))
    return out


def lagrange_parabola_integrals(h0: Rat, h1: Rat):
    """nodes 0, h0, h0+h1: integrals of the three Lagrange basis parabolas over [0, h0+h1] and over [h0, h0+h1]"""
    xs = [C(0), h0, h0 + h1]

    def basis(k):
        num = C(1)
        den = C(1)
        for m in range(3):
            if m != k:
                num = num * (S("x") - xs[m])
                den = den * (xs[k] - xs[m])
        return num, den

    def integ(num: Rat, a: Rat, b: Rat) -> Rat:
        # num is a polynomial in x with rational-function coefficients having denominator 1 here
        if num.d != Poly.const(1):
            raise Uninterpretable("basis numerator")
        p = num.n
        res = C(0)
        deg = p.degree("x")
        for e in range(deg + 1):
            c = Rat(p.coeff_of("x", e))
            res = res + c * ((b ** (e + 1)) - (a ** (e + 1))) / C(e + 1)
        return res
    full, last = [], []
    for k in range(3):
        num, den = basis(k)
        full.append(integ(num, C(0), h0 + h1) / den)
        last.append(integ(num, h0, h0 + h1) / den)
    return full, last
