"""Abstract evaluation of Markov-chain samplers (nothing of the repository runs).

A sampler `mh(logpfcn, x0, pparams, nsamples, nburnout, ..)` is interpreted (domains/kinds.py) on *symbolic* chain states: the start
state, every proposal (`x + step_size * randn_like(x)` or `custom_step(x, *pparams)`), every log-probability `lp(state)` and every
logarithm of a uniform random number are uninterpreted terms.  The accept / reject decisions - the only data-dependent control flow -
are taken from a *scenario* (per iteration: uphill / accepted downhill / rejected) by an oracle that recognises the two Metropolis
comparisons by their meaning (lp(proposal) - lp(current) > 0; log u_i < lp(proposal) - lp(current)) however they are spelled, and
that checks on the way that the ratio is formed against the log-probability of the *current* state and that iteration i consults its
own random number.  The result of the whole sampler is then compared with the chain the scenario prescribes: the samples are the
states after each of the nsamples steps that follow nburnout uncollected steps, with uniform weights 1/nsamples."""
from __future__ import annotations
import ast
from typing import Any, Dict, List, Optional, Tuple
from .dictsem import Unsupported, Raised, _Return
from .kinds import KindInterp, AObj


class Term(tuple):
    """an uninterpreted value: ("x0",), ("noise", k), ("add", a, b), ("mul", a, b), ("sub", a, b), ("lp", state), ("logu", run, i), ("step", state)"""
    def __repr__(self):
        if len(self) == 1:
            return str(self[0])
        return "%s(%s)" % (self[0], ", ".join(repr(x) for x in self[1:]))


class Buf(list):
    """a sample buffer allocated with a leading length"""
    pass


class Zeros:
    def __init__(self, n, dtype, device):
        self.n, self.dtype, self.device = n, dtype, device


class Weights:
    def __init__(self, n, value, dtype, device):
        self.n, self.value, self.dtype, self.device = n, value, dtype, device

    def __repr__(self):
        return "weights(n=%r, each=%r, dtype=%r, device=%r)" % (self.n, self.value, self.dtype, self.device)


class RandVec:
    def __init__(self, run, n, logged=False):
        self.run, self.n, self.logged = run, n, logged


class Mismatch(Exception):
    """the sampler was interpreted and does something the Metropolis protocol does not allow"""
    pass


class ChainInterp(KindInterp):
    shared: Dict[str, Any] = {}

    # ------------------------------------------------------------------ expressions
    def ev(self, e):
        if isinstance(e, ast.Attribute) and ast.unparse(e) not in self.env and e.attr in ("shape", "dtype", "device"):
            v = self.ev(e.value)
            if e.attr == "shape":
                if isinstance(v, Buf):
                    return (len(v),)
                if isinstance(v, Term):
                    return ()                      # the chain state is treated as a 0-dim position
            else:
                if isinstance(v, Term):
                    return Term((e.attr, "lp" if v[0] == "lp" else "x"))
                if isinstance(v, Buf):
                    return Term((e.attr, "x"))
        if isinstance(e, ast.BinOp):
            l, r = self.ev(e.left), self.ev(e.right)
            num = lambda z: isinstance(z, (int, float)) and not isinstance(z, bool)
            if num(l) and num(r):
                try:
                    return {ast.Add: lambda: l + r, ast.Sub: lambda: l - r, ast.Mult: lambda: l * r, ast.Div: lambda: l / r,
                            ast.FloorDiv: lambda: l // r}[type(e.op)]()
                except KeyError:
                    raise Unsupported(ast.unparse(e)[:60])
                except ZeroDivisionError:
                    raise Raised("ZeroDivisionError in `%s`" % ast.unparse(e)[:60])
            if isinstance(l, Zeros) and num(r) and isinstance(e.op, ast.Add):
                return Weights(l.n, r, l.dtype, l.device)
            if isinstance(r, Zeros) and num(l) and isinstance(e.op, ast.Add):
                return Weights(r.n, l, r.dtype, r.device)
            if isinstance(l, Term) or isinstance(r, Term):
                opn = {ast.Add: "add", ast.Sub: "sub", ast.Mult: "mul", ast.Div: "div"}.get(type(e.op))
                if opn is None:
                    raise Unsupported(ast.unparse(e)[:60])
                if opn in ("add", "mul"):
                    a_, b_ = sorted((l, r), key=repr)
                    return Term((opn, a_, b_))
                return Term((opn, l, r))
            if isinstance(l, (list, tuple)) and isinstance(r, (list, tuple)) and isinstance(e.op, ast.Add):
                return type(l)(list(l) + list(r))
            raise Unsupported(ast.unparse(e)[:60])
        if isinstance(e, ast.UnaryOp) and isinstance(e.op, ast.USub):
            v = self.ev(e.operand)
            if isinstance(v, (int, float)):
                return -v
            if isinstance(v, Term):
                return Term(("neg", v))
        if isinstance(e, ast.Subscript):
            b = self.ev(e.value)
            if isinstance(b, RandVec):
                k = self.ev(e.slice)
                if not isinstance(k, int):
                    raise Unsupported("index of the random numbers")
                if not b.logged:
                    return Term(("u", b.run, k))
                return Term(("logu", b.run, k))
            if isinstance(b, Buf):
                k = self.ev(e.slice)
                if isinstance(k, int) and -len(b) <= k < len(b):
                    return b[k]
                if isinstance(k, slice):
                    return Buf(b[k])
        return super().ev(e)

    def call(self, c: ast.Call):
        fn = ast.unparse(c.func)
        sh = self.shared
        kw = {k.arg: k.value for k in c.keywords if k.arg}
        if isinstance(c.func, ast.Name) and self.env.get(fn) is sh["logpfcn"]:
            args = self._args(c)
            if len(args) < 1 or list(args[1:]) != list(sh["pparams"]):
                raise Mismatch("log p is evaluated as `%s`, not with the position followed by the caller's parameters *pparams" % ast.unparse(c)[:60])
            if not isinstance(args[0], Term):
                raise Mismatch("log p is evaluated on `%s`, which is not one chain position" % (args[0],))
            return Term(("lp", args[0]))
        if isinstance(c.func, ast.Name) and sh.get("custom_step") is not None and self.env.get(fn) is sh["custom_step"]:
            args = self._args(c)
            if len(args) < 1 or list(args[1:]) != list(sh["pparams"]) or not isinstance(args[0], Term):
                raise Mismatch("the custom step is called as `%s`, not with the current position followed by *pparams" % ast.unparse(c)[:60])
            sh["steps"] += 1
            return Term(("step", args[0]))
        if fn in ("torch.randn_like", "torch.rand_like") and c.args:
            self.ev(c.args[0])
            sh["noise"] += 1
            return Term(("noise" if fn.endswith("randn_like") else "unoise", sh["noise"]))
        if fn in ("torch.rand",) and c.args:
            shp = self.ev(c.args[0])
            n = shp[0] if isinstance(shp, (tuple, list)) and len(shp) == 1 else (shp if isinstance(shp, int) else None)
            if n is None:
                raise Unsupported("shape of the random numbers")
            sh["runs"] += 1
            return RandVec(sh["runs"], n)
        if fn == "torch.log" and len(c.args) == 1:
            v = self.ev(c.args[0])
            if isinstance(v, RandVec) and not v.logged:
                return RandVec(v.run, v.n, True)
            if isinstance(v, Term) and v[0] == "u":
                return Term(("logu",) + tuple(v[1:]))
            raise Unsupported("log of %r" % (v,))
        if fn in ("torch.empty", "torch.zeros") and c.args:
            shp = self.ev(c.args[0])
            if isinstance(shp, int):
                shp = tuple([shp] + [self.ev(a) for a in c.args[1:]])
            if not (isinstance(shp, (tuple, list)) and shp and isinstance(shp[0], int)):
                raise Unsupported("allocation %s" % ast.unparse(c)[:50])
            dt = self.ev(kw["dtype"]) if "dtype" in kw else None
            dv = self.ev(kw["device"]) if "device" in kw else None
            if len(shp) == 1 and fn == "torch.zeros":
                return Zeros(shp[0], dt, dv)
            b = Buf([None] * shp[0])
            return b
        if fn in ("torch.full",) and len(c.args) == 2:
            shp, val = self.ev(c.args[0]), self.ev(c.args[1])
            if isinstance(shp, (tuple, list)) and len(shp) == 1 and isinstance(shp[0], int) and isinstance(val, (int, float)):
                return Weights(shp[0], val, self.ev(kw["dtype"]) if "dtype" in kw else None, self.ev(kw["device"]) if "device" in kw else None)
        if fn in ("torch.ones",) and c.args:
            shp = self.ev(c.args[0])
            if isinstance(shp, (tuple, list)) and len(shp) == 1 and isinstance(shp[0], int):
                return Weights(shp[0], 1, self.ev(kw["dtype"]) if "dtype" in kw else None, self.ev(kw["device"]) if "device" in kw else None)
        if fn in ("len",) and len(c.args) == 1:
            v = self.ev(c.args[0])
            if isinstance(v, (list, tuple)):
                return len(v)
        if fn == "range":
            a = [self.ev(x) for x in c.args]
            if all(isinstance(x, int) for x in a):
                return list(range(*a))
        if fn == "hasattr" and len(c.args) == 2 and self.ev(c.args[0]) is sh.get("custom_step") and sh.get("custom_step") is not None:
            return True
        if fn == "callable" and len(c.args) == 1 and self.ev(c.args[0]) is sh.get("custom_step") and sh.get("custom_step") is not None:
            return True
        if fn in ("torch.stack", "torch.cat") and c.args:
            v = self.ev(c.args[0])
            if isinstance(v, (list, tuple)) and all(isinstance(x, Term) for x in v) and fn == "torch.stack":
                return Buf(v)
        return super().call(c)

    def _args(self, c):
        out = []
        for a in c.args:
            if isinstance(a, ast.Starred):
                v = self.ev(a.value)
                if not isinstance(v, (list, tuple)):
                    raise Unsupported("* of a non-sequence")
                out.extend(v)
            else:
                out.append(self.ev(a))
        return out

    # ------------------------------------------------------------------ the oracle
    def truth(self, e) -> bool:
        if isinstance(e, ast.Compare) and len(e.ops) == 1 and isinstance(e.ops[0], (ast.Lt, ast.Gt, ast.LtE, ast.GtE)):
            l, r = self.ev(e.left), self.ev(e.comparators[0])
            if isinstance(l, Term) or isinstance(r, Term):
                if isinstance(e.ops[0], (ast.Gt, ast.GtE)):
                    l, r = r, l                       # canonical orientation  l < r
                return self._oracle(l, r, ast.unparse(e))
        return super().truth(e)

    def _ratio(self, t) -> Optional[Tuple[Any, Any]]:
        """(proposal, current) if t is lp(proposal) - lp(current)"""
        if isinstance(t, Term) and t[0] == "sub" and isinstance(t[1], Term) and t[1][0] == "lp" and isinstance(t[2], Term) and t[2][0] == "lp":
            return t[1][1], t[2][1]
        return None

    def _latest_noise(self, t) -> Optional[int]:
        best = None
        stack = [t]
        while stack:
            x = stack.pop()
            if isinstance(x, Term):
                if x[0] in ("noise", "unoise"):
                    best = x[1] if best is None else max(best, x[1])
                stack.extend(x[1:])
        return best

    def _oracle(self, l, r, text) -> bool:
        sh = self.shared
        ratio, kind, logu = None, None, None
        if l == 0 and self._ratio(r) is not None:                      # 0 < lp(prop) - lp(cur)
            ratio, kind = self._ratio(r), "up"
        elif isinstance(l, Term) and isinstance(r, Term) and l[0] == "lp" and r[0] == "lp":     # lp(cur) < lp(prop)
            ratio, kind = (r[1], l[1]), "up"
        elif isinstance(l, Term) and l[0] == "logu" and self._ratio(r) is not None:             # log u < lp(prop) - lp(cur)
            ratio, kind, logu = self._ratio(r), "acc", l
        elif isinstance(l, Term) and l[0] == "logu" and isinstance(r, (int, float)) and not isinstance(r, bool) and r == 0:
            return True                                                # log u < 0 always
        if ratio is None:
            raise Unsupported("comparison %s" % text)
        k = self._latest_noise(ratio[0])
        if k is None or k != sh["noise"]:
            raise Mismatch("the acceptance test `%s` is not about the proposal of the current step" % text)
        step = k - 1
        if step >= len(sh["scenario"]):
            raise Mismatch("the sampler makes more than the requested nburnout + nsamples = %d steps" % len(sh["scenario"]))
        cur = current_state(sh, step)
        if sh["proposals"].get(step) != ratio[0]:
            raise Mismatch("the acceptance test of step %d is about %r, but log p was evaluated at %r" % (step, ratio[0], sh["proposals"].get(step)))
        if ratio[1] != cur:
            raise Mismatch("the acceptance ratio of step %d is formed against lp(%r) while the chain is at %r: the stored log-probability of the current position is stale"
                           % (step, ratio[1], cur))
        if logu is not None:
            key = (logu[1], logu[2])
            owner = sh["used_random"].setdefault(key, step)
            if owner != step:
                raise Mismatch("steps %d and %d consult the same uniform random number: every step needs its own" % (owner, step))
        decision = sh["scenario"][step]
        if kind == "up":
            return decision == "up"
        return decision in ("up", "accept")


def current_state(sh, step: int):
    """the position of the chain before step `step` (0-based), as the scenario prescribes"""
    cur = sh["x0"]
    for j in range(step):
        if sh["scenario"][j] in ("up", "accept") and j in sh["proposals"]:
            cur = sh["proposals"][j]
    return cur


def run_sampler(fnode: ast.FunctionDef, functions: Dict[str, ast.FunctionDef], records: Dict[str, Any], kind: str, nburn: int, nsamp: int,
                scenario: Optional[List[str]] = None):
    """evaluate the sampler `fnode` (kind 'mh' or 'mhcustom') abstractly; returns (result, shared state).  Raises Unsupported (not
    interpretable), Mismatch / Raised (interpreted and wrong)."""
    ps = [a.arg for a in fnode.args.args]
    logp = AObj("logpfcn")
    step = AObj("custom_step") if kind == "mhcustom" else None
    x0 = Term(("x0",))
    pp = [Term(("param", 0)), "a non-tensor parameter"]
    sh: Dict[str, Any] = dict(logpfcn=logp, custom_step=step, pparams=pp, noise=0, runs=0, steps=0, scenario=list(scenario or []), proposals={}, x0=x0,
                              used_random={}, asked=set())
    env: Dict[str, Any] = {ps[0]: logp, ps[1]: x0, ps[2]: pp}
    for a, d in zip(ps[::-1], list(fnode.args.defaults)[::-1]):
        if a not in env:
            env[a] = ast.literal_eval(d) if not (isinstance(d, ast.Constant) and d.value is None) else None
    env["nsamples"], env["nburnout"] = nsamp, nburn
    if "step_size" in ps:
        env["step_size"] = Term(("step_size",))
    if kind == "mhcustom":
        env["custom_step"] = step

    class It(ChainInterp):
        shared = sh

        def call(self, c):
            fn = ast.unparse(c.func)
            r = super().call(c)
            if isinstance(r, Term) and r[0] == "lp" and kind == "mh":
                k = self._latest_noise(r[1])
                if k is not None and k == sh["noise"] and (k - 1) not in sh["proposals"]:
                    sh["proposals"][k - 1] = r[1]          # the first evaluation of log p at a position made with this step's noise: the proposal
            return r
    it = It(env)
    it.functions = functions
    it.records = records
    try:
        it.run(list(fnode.body))
        res = None
    except _Return as r:
        res = r.v
    return res, sh


def flat_sum(t) -> Optional[Tuple[Any, ...]]:
    """the multiset of summands of a nested sum (numeric zeros dropped), sorted; None if t is not a Term / number"""
    out = []

    def go(x):
        if isinstance(x, Term) and x[0] == "add":
            go(x[1])
            go(x[2])
        elif isinstance(x, (int, float)) and not isinstance(x, bool):
            if x != 0:
                out.append(x)
        else:
            out.append(x)
    go(t)
    return tuple(sorted(out, key=repr))


class SumInterp(ChainInterp):
    """ChainInterp plus reductions of a list of terms: sum(list), torch.stack(list).sum(0), torch.sum(torch.stack(list), dim=0)"""

    def call(self, c: ast.Call):
        fn = ast.unparse(c.func)
        kw = {k.arg: k.value for k in c.keywords if k.arg}

        def total(v):
            if not (isinstance(v, (list, tuple)) and all(isinstance(x, (Term, int, float)) for x in v)):
                raise Unsupported("sum of %r" % (v,))
            acc = 0
            for x in v:
                acc = x if (isinstance(acc, (int, float)) and acc == 0) else Term(("add",) + tuple(sorted((acc, x), key=repr)))
            return acc

        def axis0(args, kws):
            d = kws.get("dim", kws.get("axis"))
            d = self.ev(d) if d is not None else (self.ev(args[0]) if args else None)
            if d not in (0,):
                raise Unsupported("reduction over axis %r" % (d,))
        if fn == "sum" and 1 <= len(c.args) <= 2 and not c.keywords:
            v = total(self.ev(c.args[0]))
            if len(c.args) == 2:
                st = self.ev(c.args[1])
                if not (isinstance(st, (int, float)) and st == 0):
                    v = Term(("add",) + tuple(sorted((st, v), key=repr)))
            return v
        if fn == "torch.sum" and c.args:
            v = self.ev(c.args[0])
            if isinstance(v, Buf):
                axis0(c.args[1:], kw)
                return total(v)
        if isinstance(c.func, ast.Attribute) and c.func.attr == "sum":
            v = self.ev(c.func.value)
            if isinstance(v, Buf):
                axis0(c.args, kw)
                return total(v)
        if fn == "torch.stack" and c.args:
            v = self.ev(c.args[0])
            d = self.ev(kw["dim"]) if "dim" in kw else (self.ev(c.args[1]) if len(c.args) > 1 else 0)
            if isinstance(v, (list, tuple)) and all(isinstance(x, Term) for x in v) and d == 0:
                return Buf(v)
        if fn == "zip" and all(not isinstance(a, ast.Starred) for a in c.args):
            vs = [self.ev(a) for a in c.args]
            if all(isinstance(v, (list, tuple)) for v in vs):
                return [tuple(t) for t in zip(*vs)]
        if fn == "enumerate" and len(c.args) == 1:
            v = self.ev(c.args[0])
            if isinstance(v, (list, tuple)):
                return [(i, x) for i, x in enumerate(v)]
        return super().call(c)
