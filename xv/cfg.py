"""Statement-level control-flow graph for the statement kinds xitorch uses.

Nodes
  entry, exit (normal return), raise_exit (an exception leaves the function)
  stmt      simple statement (also nested def/class as one statement, `with` header, `try` marker)
  test      `if` / `while` header; edges labelled True / False
  loop      `for` header; True = next item, False = exhausted
  return, raise
  with_exit  synthetic: __exit__ of a `with` item (present on the normal and on the exceptional path)
  except    handler entry
Edges carry a label: None, True, False or "exc" (exceptional edge).

`finally` bodies are duplicated for the normal continuation, for the exceptional continuation
and for every `return`/`break`/`continue` that leaves the `try` (like CPython's compiler does),
so must-pass-through questions stay path-precise.
"""
from __future__ import annotations
import ast
from typing import List, Tuple, Optional, Dict, Set


class Node:
    __slots__ = ("id", "kind", "stmt", "succ", "pred", "label")

    def __init__(self, id, kind, stmt=None, label=""):
        self.id = id
        self.kind = kind
        self.stmt = stmt
        self.succ: List[Tuple["Node", object]] = []
        self.pred: List[Tuple["Node", object]] = []
        self.label = label

    @property
    def lineno(self):
        return getattr(self.stmt, "lineno", None)

    def __repr__(self):
        return "<%d:%s%s@%s>" % (self.id, self.kind, ":" + self.label if self.label else "", self.lineno)


class _Frame:
    """exception / finally context while building"""

    def __init__(self, kind, **kw):
        self.kind = kind            # 'try' (handlers+finally), 'with', 'loop'
        self.__dict__.update(kw)


class CFG:
    def __init__(self, fn: ast.AST, exceptional: bool = True):
        self.fn = fn
        self.exceptional = exceptional
        self.nodes: List[Node] = []
        self.entry = self.new("entry")
        self.exit = self.new("exit")
        self.raise_exit = self.new("raise_exit")
        self.stmt_nodes: Dict[int, List[Node]] = {}
        self._exc_entry: Dict[int, Node] = {}
        body = fn.body if not isinstance(fn, ast.Lambda) else [ast.Return(value=fn.body)]
        outs = self.seq(body, [(self.entry, None)], [])
        for n, lab in outs:
            self.link(n, self.exit, lab)

    # ---------------------------------------------------------------- basic
    def new(self, kind, stmt=None, label=""):
        n = Node(len(self.nodes), kind, stmt, label)
        self.nodes.append(n)
        if stmt is not None:
            self.stmt_nodes.setdefault(id(stmt), []).append(n)
        return n

    def link(self, a: Node, b: Node, lab=None):
        a.succ.append((b, lab))
        b.pred.append((a, lab))

    def attach(self, ins, node):
        for n, lab in ins:
            self.link(n, node, lab)

    def nodes_of(self, stmt) -> List[Node]:
        return self.stmt_nodes.get(id(stmt), [])

    # ---------------------------------------------------------------- exceptional routing
    def exc_target(self, node: Node, frames: List[_Frame]):
        """Add an exceptional edge from node to wherever an exception raised there goes."""
        if not self.exceptional:
            return
        self.route_exc([(node, "exc")], frames)

    def route_exc(self, ins, frames: List[_Frame]):
        """Route exceptional flow `ins` outward through frames. The exceptional copy of a
        `finally` body / `with` exit is built once per statement and shared."""
        for i in range(len(frames) - 1, -1, -1):
            fr = frames[i]
            if fr.kind == "try":
                if fr.phase == "body" and fr.handlers:
                    for hn in fr.handler_nodes:
                        self.attach(ins, hn)
                    if fr.catch_all:
                        return
                    # may also propagate past the handlers
                if fr.node.finalbody:
                    key = id(fr.node)
                    if key in self._exc_entry:
                        self.attach(ins, self._exc_entry[key])
                        return
                    join = self.new("join", fr.node, "finally-exc")
                    self._exc_entry[key] = join
                    self.attach(ins, join)
                    outs = self.seq(fr.node.finalbody, [(join, None)], frames[:i], tag="finally-exc")
                    ins = [(n, "exc") for n, _ in outs]
                    if not ins:
                        return
                continue
            if fr.kind == "with":
                key = id(fr.node)
                if key in self._exc_entry:
                    self.attach(ins, self._exc_entry[key])
                    return
                we = self.new("with_exit", fr.node, "exc")
                self._exc_entry[key] = we
                self.attach(ins, we)
                ins = [(we, "exc")]
                continue
        self.attach(ins, self.raise_exit)

    def route_jump(self, ins, frames: List[_Frame], upto: Optional[_Frame]):
        """Normal-flow jump (return/break/continue) leaving frames down to (not including) `upto`:
        run finally bodies / with exits on the way. Returns the outs after the cleanups."""
        for i in range(len(frames) - 1, -1, -1):
            fr = frames[i]
            if fr is upto:
                break
            if fr.kind == "try" and fr.node.finalbody and fr.phase in ("body", "handler"):
                ins = self.seq(fr.node.finalbody, ins, frames[:i], tag="finally-jump")
            elif fr.kind == "with":
                we = self.new("with_exit", fr.node, "jump")
                self.attach(ins, we)
                ins = [(we, None)]
        return ins

    # ---------------------------------------------------------------- builders
    def seq(self, stmts, ins, frames, tag=""):
        cur = ins
        for s in stmts:
            if not cur:
                break
            cur = self.stmt(s, cur, frames, tag)
        return cur

    def stmt(self, s, ins, frames, tag=""):
        if isinstance(s, ast.If):
            t = self.new("test", s, tag)
            self.attach(ins, t)
            self.exc_target(t, frames)
            a = self.seq(s.body, [(t, True)], frames, tag)
            b = self.seq(s.orelse, [(t, False)], frames, tag) if s.orelse else [(t, False)]
            return a + b
        if isinstance(s, (ast.For, ast.While)):
            h = self.new("loop" if isinstance(s, ast.For) else "test", s, tag)
            self.attach(ins, h)
            self.exc_target(h, frames)
            fr = _Frame("loop", node=s, header=h, breaks=[])
            body_out = self.seq(s.body, [(h, True)], frames + [fr], tag)
            for n, lab in body_out:
                self.link(n, h, lab)
            outs = [(h, False)]
            if s.orelse:
                outs = self.seq(s.orelse, outs, frames, tag)
            return outs + fr.breaks
        if isinstance(s, ast.Break):
            n = self.new("stmt", s, tag)
            self.attach(ins, n)
            loopfr = [f for f in frames if f.kind == "loop"][-1]
            outs = self.route_jump([(n, None)], frames, loopfr)
            loopfr.breaks.extend(outs)
            return []
        if isinstance(s, ast.Continue):
            n = self.new("stmt", s, tag)
            self.attach(ins, n)
            loopfr = [f for f in frames if f.kind == "loop"][-1]
            outs = self.route_jump([(n, None)], frames, loopfr)
            for m, lab in outs:
                self.link(m, loopfr.header, lab)
            return []
        if isinstance(s, ast.Return):
            n = self.new("return", s, tag)
            self.attach(ins, n)
            if s.value is not None:
                self.exc_target(n, frames)
            outs = self.route_jump([(n, None)], frames, None)
            for m, lab in outs:
                self.link(m, self.exit, lab)
            return []
        if isinstance(s, ast.Raise) or (isinstance(s, ast.Assert) and isinstance(s.test, ast.Constant) and not s.test.value):
            # `assert False, msg` is the project's idiom for "unreachable": it never falls through
            n = self.new("raise", s, tag)
            self.attach(ins, n)
            if self.exceptional:
                self.route_exc([(n, "exc")], frames)
            return []
        if isinstance(s, ast.With):
            n = self.new("stmt", s, tag or "with")
            self.attach(ins, n)
            self.exc_target(n, frames)
            fr = _Frame("with", node=s)
            body = self.seq(s.body, [(n, None)], frames + [fr], tag)
            if body:
                we = self.new("with_exit", s, "normal")
                self.attach(body, we)
                return [(we, None)]
            return []
        if isinstance(s, ast.Try):
            n = self.new("stmt", s, tag or "try")
            self.attach(ins, n)
            fr = _Frame("try", node=s, phase="body", handlers=s.handlers, handler_nodes=[], catch_all=False)
            for h in s.handlers:
                hn = self.new("except", h, tag)
                fr.handler_nodes.append(hn)
                if h.type is None or (isinstance(h.type, ast.Name) and h.type.id in ("BaseException",)):
                    fr.catch_all = True
            body = self.seq(s.body, [(n, None)], frames + [fr], tag)
            if s.orelse:
                # exceptions in orelse are not caught by the handlers but run the finally
                fr_else = _Frame("try", node=s, phase="handler", handlers=[], handler_nodes=[], catch_all=False)
                body = self.seq(s.orelse, body, frames + [fr_else], tag)
            hs = []
            fr_h = _Frame("try", node=s, phase="handler", handlers=[], handler_nodes=[], catch_all=False)
            for h, hn in zip(s.handlers, fr.handler_nodes):
                hs += self.seq(h.body, [(hn, None)], frames + [fr_h], tag)
            outs = body + hs
            if s.finalbody and outs:
                outs = self.seq(s.finalbody, outs, frames, tag or "finally-normal")
            return outs
        # simple statements (incl. nested defs as a single statement)
        n = self.new("stmt", s, tag)
        self.attach(ins, n)
        if not isinstance(s, (ast.Pass, ast.FunctionDef, ast.ClassDef, ast.Global, ast.Nonlocal, ast.Import, ast.ImportFrom)):
            self.exc_target(n, frames)
        return [(n, None)]

    # ---------------------------------------------------------------- analyses
    def reachable(self, start: Optional[Node] = None, skip_exc: bool = False) -> Set[int]:
        start = start or self.entry
        seen = {start.id}
        work = [start]
        while work:
            n = work.pop()
            for s, lab in n.succ:
                if skip_exc and lab == "exc":
                    continue
                if s.id not in seen:
                    seen.add(s.id)
                    work.append(s)
        return seen

    def dominators(self, skip_exc: bool = True) -> Dict[int, Set[int]]:
        """dom[n] = set of node ids dominating n (over normal edges by default)."""
        reach = self.reachable(skip_exc=skip_exc)
        ids = sorted(reach)
        dom = {i: set(ids) for i in ids}
        dom[self.entry.id] = {self.entry.id}
        changed = True
        while changed:
            changed = False
            for i in ids:
                if i == self.entry.id:
                    continue
                preds = [p.id for p, lab in self.nodes[i].pred if p.id in reach and not (skip_exc and lab == "exc")]
                if not preds:
                    continue
                new = set.intersection(*(dom[p] for p in preds)) | {i}
                if new != dom[i]:
                    dom[i] = new
                    changed = True
        return dom

    def can_reach_without(self, start: Node, targets: Set[int], forbidden: Set[int], skip_exc=False) -> Optional[List[Node]]:
        """Is there a path from start to any node in `targets` that avoids every node in `forbidden`?
        Returns the path (list of nodes) or None."""
        prev = {start.id: None}
        work = [start]
        while work:
            n = work.pop()
            if n.id in targets and n is not start:
                path = []
                cur = n.id
                while cur is not None:
                    path.append(self.nodes[cur])
                    cur = prev[cur]
                return list(reversed(path))
            for s, lab in n.succ:
                if skip_exc and lab == "exc":
                    continue
                if s.id in forbidden or s.id in prev:
                    continue
                prev[s.id] = n.id
                work.append(s)
        return None


def stmt_dominates(cfg: CFG, dom, a_stmt, b_stmt) -> bool:
    """every (normal) path from entry to any node of b_stmt passes a node of a_stmt"""
    a_ids = {n.id for n in cfg.nodes_of(a_stmt)}
    bs = cfg.nodes_of(b_stmt)
    if not a_ids or not bs:
        return False
    for b in bs:
        if b.id not in dom:
            continue
        if not (dom[b.id] & a_ids):
            return False
    return True
