"""Source model of /repo/xitorch: parsed modules, symbol table, name resolution.

Nothing here imports or executes xitorch: everything is derived from `ast`.
"""
from __future__ import annotations
import ast
import os
from typing import Dict, List, Optional, Tuple, Iterator


class AnalysisError(Exception):
    """The checker cannot decide (vanished anchor, unsupported construct, ...). Exit code 2."""


class AnchorError(AnalysisError):
    pass


def norm_stmt(node: ast.AST, maxlen: int = 160) -> str:
    """Normalised text of a statement/expression: `ast.unparse` (formatting, comments and line
    numbers do not matter), first logical line for compound statements."""
    if isinstance(node, (ast.If, ast.While)):
        txt = ("if " if isinstance(node, ast.If) else "while ") + ast.unparse(node.test)
    elif isinstance(node, ast.For):
        txt = "for %s in %s" % (ast.unparse(node.target), ast.unparse(node.iter))
    elif isinstance(node, (ast.With,)):
        txt = "with " + ", ".join(ast.unparse(i) for i in node.items)
    elif isinstance(node, ast.Try):
        txt = "try"
    elif isinstance(node, (ast.FunctionDef, ast.AsyncFunctionDef)):
        txt = "def %s(%s)" % (node.name, ast.unparse(node.args))
    elif isinstance(node, ast.ClassDef):
        txt = "class " + node.name
    elif isinstance(node, ast.ExceptHandler):
        txt = "except " + (ast.unparse(node.type) if node.type else "")
    else:
        txt = ast.unparse(node)
    txt = " ".join(txt.split())
    return txt if len(txt) <= maxlen else txt[:maxlen - 3] + "..."


class FuncInfo:
    def __init__(self, node, qualname, module, cls=None, parent=None):
        self.node: ast.FunctionDef = node
        self.qualname: str = qualname          # e.g. "Class.method" or "func.inner"
        self.module: "Module" = module
        self.cls: Optional["ClassInfo"] = cls    # class that lexically owns the function (methods only)
        self.parent: Optional["FuncInfo"] = parent  # lexically enclosing function

    @property
    def name(self):
        return self.node.name

    @property
    def fq(self):
        return "%s::%s" % (self.module.relpath, self.qualname)

    @property
    def lineno(self):
        return self.node.lineno

    def params(self) -> List[str]:
        a = self.node.args
        return [x.arg for x in a.posonlyargs + a.args]

    def kwonly(self) -> List[str]:
        return [x.arg for x in self.node.args.kwonlyargs]

    def all_params(self) -> List[str]:
        a = self.node.args
        res = self.params() + self.kwonly()
        return res

    def vararg(self) -> Optional[str]:
        return self.node.args.vararg.arg if self.node.args.vararg else None

    def kwarg(self) -> Optional[str]:
        return self.node.args.kwarg.arg if self.node.args.kwarg else None

    def decorators(self) -> List[str]:
        return [ast.unparse(d) for d in self.node.decorator_list]

    def __repr__(self):
        return "<Func %s>" % self.fq


class ClassInfo:
    def __init__(self, node, qualname, module):
        self.node: ast.ClassDef = node
        self.qualname = qualname
        self.module: "Module" = module
        self.methods: Dict[str, FuncInfo] = {}
        self.base_exprs: List[str] = [ast.unparse(b) for b in node.bases]
        self.bases: List["ClassInfo"] = []     # resolved in-package bases

    @property
    def name(self):
        return self.node.name

    @property
    def fq(self):
        return "%s::%s" % (self.module.relpath, self.qualname)

    def mro(self) -> List["ClassInfo"]:
        """Linearised (depth-first, left-to-right, duplicates removed keeping last) in-package MRO."""
        out: List[ClassInfo] = []

        def visit(c):
            out.append(c)
            for b in c.bases:
                visit(b)
        visit(self)
        seen = set()
        res = []
        for c in reversed(out):
            if id(c) not in seen:
                seen.add(id(c))
                res.append(c)
        res.reverse()
        return res

    def find_method(self, name) -> Optional[FuncInfo]:
        for c in self.mro():
            if name in c.methods:
                return c.methods[name]
        return None

    def derives_from(self, basename: str) -> bool:
        """basename matches the last component of a base expression anywhere in the hierarchy"""
        for c in self.mro():
            for b in c.base_exprs:
                if b == basename or b.endswith("." + basename):
                    return True
            if c is not self and c.name == basename:
                return True
        return False

    def class_assigns(self) -> Dict[str, ast.AST]:
        res = {}
        for s in self.node.body:
            if isinstance(s, ast.Assign):
                for t in s.targets:
                    if isinstance(t, ast.Name):
                        res[t.id] = s.value
            elif isinstance(s, ast.AnnAssign) and isinstance(s.target, ast.Name) and s.value is not None:
                res[s.target.id] = s.value
        return res

    def __repr__(self):
        return "<Class %s>" % self.fq


_NEG_OPS = {ast.NotEq: ast.Eq, ast.IsNot: ast.Is, ast.NotIn: ast.In}


def _positive(test):
    """(test', flipped): the test with one outer negation removed (`not X`, `a != b`, `a is not b`,
    `a not in b`)."""
    if isinstance(test, ast.UnaryOp) and isinstance(test.op, ast.Not):
        return test.operand, True
    if isinstance(test, ast.Compare) and len(test.ops) == 1 and type(test.ops[0]) in _NEG_OPS:
        new = ast.Compare(left=test.left, ops=[_NEG_OPS[type(test.ops[0])]()], comparators=test.comparators)
        return ast.copy_location(new, test), True
    return test, False


class _LoadNormaliser(ast.NodeTransformer):
    """Behaviour-preserving normal form applied to every module when it is loaded, so that no rule depends on
    which of several equivalent spellings the source uses:
      * `pass` statements are dropped from bodies that have another statement;
      * a two-armed `if` / conditional expression (not an `elif` chain) has a positive test: `if not c: A else: B`,
        `if a != b`, `if a is not b`, `if a not in b` become the swapped form with the positive test.
    Positions are those of the original nodes."""

    def _body(self, stmts):
        keep = [s for s in stmts if not isinstance(s, ast.Pass)]
        return keep if keep else stmts[:1]

    def generic_visit(self, node):
        super().generic_visit(node)
        for fld in ("body", "orelse", "finalbody"):
            v = getattr(node, fld, None)
            if isinstance(v, list) and v and isinstance(v[0], ast.stmt):
                setattr(node, fld, self._body(v))
        return node

    def visit_If(self, node):
        self.generic_visit(node)
        if node.orelse and not (len(node.orelse) == 1 and isinstance(node.orelse[0], ast.If)):
            t, flipped = _positive(node.test)
            if flipped:
                node.test, node.body, node.orelse = t, node.orelse, node.body
        return node

    def visit_IfExp(self, node):
        self.generic_visit(node)
        t, flipped = _positive(node.test)
        if flipped:
            node.test, node.body, node.orelse = t, node.orelse, node.body
        return node


_TERMINATORS = (ast.Return, ast.Raise, ast.Continue, ast.Break)


def _terminates(body) -> bool:
    return bool(body) and isinstance(body[-1], _TERMINATORS)


def _negated(test):
    t, flipped = _positive(test)
    if flipped:
        return t
    if isinstance(test, ast.Compare) and len(test.ops) == 1 and type(test.ops[0]) in (ast.Eq, ast.Is, ast.In):
        inv = {ast.Eq: ast.NotEq, ast.Is: ast.IsNot, ast.In: ast.NotIn}[type(test.ops[0])]
        return ast.copy_location(ast.Compare(left=test.left, ops=[inv()], comparators=test.comparators), test)
    return ast.copy_location(ast.UnaryOp(op=ast.Not(), operand=test), test)


def _flatten_terminating_ifs(tree):
    """An `if` whose one arm always leaves the block (return / raise / continue / break) needs no `else`:
         if c: ..; return A          if c: ..; return A
         else: REST             ->   REST
    and when only the else arm leaves, the arms are swapped first (test negated).  `elif` chains whose arms all leave become a
    sequence of guards.  Behaviour-preserving; makes guard-clause style and if/else style one form."""
    def size(block):
        return sum(1 for st in block for _ in ast.walk(st))

    def sub(s_):
        for fld in ("body", "orelse", "finalbody"):
            b = getattr(s_, fld, None)
            if isinstance(b, list) and b and isinstance(b[0], ast.stmt) and not (isinstance(s_, ast.If) and fld in ("body", "orelse")):
                setattr(s_, fld, fix_block(b))
        for h in getattr(s_, "handlers", []) or []:
            h.body = fix_block(h.body)

    def fix_block(stmts):
        """`if c: B else: E` followed by R is `if c: B else: E + R` whenever B always leaves the block (and vice versa); among the
        equivalent guard-clause spellings one is chosen: the guard is the arm that leaves; if both leave, the arm that raises, else the
        smaller arm, else the positive test"""
        stmts = list(stmts)
        if not stmts:
            return []
        s_, rest = stmts[0], stmts[1:]
        sub(s_)
        if not isinstance(s_, ast.If):
            return [s_] + fix_block(rest)
        B = fix_block(s_.body)
        E = fix_block(s_.orelse)
        if _terminates(B):
            other = E + rest                      # what runs when the test is false
            other_fixed = fix_block(other)
            if _terminates(other_fixed) and other:
                rb, ro = isinstance(B[-1], ast.Raise), isinstance(other_fixed[-1], ast.Raise)
                if rb != ro:
                    swap = ro
                else:
                    nb, no = size(B), size(other_fixed)
                    swap = (no < nb) if nb != no else _positive(s_.test)[1]
                if swap:
                    s_.test, s_.body, s_.orelse = _negated(s_.test), other_fixed, []
                    return [s_] + B
            s_.body, s_.orelse = B, []
            return [s_] + other_fixed
        if E and _terminates(E):
            s_.test, s_.body, s_.orelse = _negated(s_.test), E, []
            return [s_] + fix_block(B + rest)
        s_.body, s_.orelse = B, E
        return [s_] + fix_block(rest)
    for n in ast.walk(tree):
        if isinstance(n, (ast.FunctionDef, ast.AsyncFunctionDef)):
            n.body = fix_block(n.body)
    return tree


def _sink_result_returns(tree):
    """`if c: ..; r = A  elif d: ..; r = B  else: ..; r = C` immediately followed by `return r`  ->  the return is copied to the end of
    every arm (an arm that already leaves keeps its own exit).  Always behaviour-preserving; together with _inline_return_temps it makes
    the result-variable idiom and the return-per-branch idiom one form."""
    def arms_of(node):
        """the leaf arms (statement lists) of an if / elif / else chain; None when the chain has no final else"""
        out = [node.body]
        if not node.orelse:
            return None
        if len(node.orelse) == 1 and isinstance(node.orelse[0], ast.If):
            rest = arms_of(node.orelse[0])
            if rest is None:
                return None
            return out + rest
        return out + [node.orelse]

    def assigns_last(arm, name):
        last = arm[-1]
        if isinstance(last, (ast.Return, ast.Raise)):
            return True
        tgt = last.targets[0] if isinstance(last, ast.Assign) and len(last.targets) == 1 else None
        if isinstance(tgt, ast.Name) and tgt.id == name:
            return True
        if isinstance(last, ast.If):
            sub = arms_of(last)
            return sub is not None and all(assigns_last(a, name) for a in sub)
        return False

    def sink(arm, ret):
        last = arm[-1]
        if isinstance(last, (ast.Return, ast.Raise)):
            return
        if isinstance(last, ast.If):
            for a in arms_of(last):
                sink(a, ret)
            return
        arm.append(ast.copy_location(ast.Return(value=ast.copy_location(ast.Name(id=ret.value.id, ctx=ast.Load()), last)), last))

    for blk in ast.walk(tree):
        for fld in ("body", "orelse", "finalbody"):
            b = getattr(blk, fld, None)
            if not (isinstance(b, list) and len(b) >= 2 and isinstance(b[0], ast.stmt)):
                continue
            if isinstance(b[-1], ast.Return) and isinstance(b[-1].value, ast.Name) and isinstance(b[-2], ast.If):
                arms = arms_of(b[-2])
                if arms is not None and all(assigns_last(a, b[-1].value.id) for a in arms) \
                        and any(not isinstance(a[-1], (ast.Return, ast.Raise)) for a in arms):
                    for a in arms:
                        sink(a, b[-1])
                    del b[-1]
    return tree


def _inline_return_temps(tree):
    """`X = <expr>` immediately followed by `return X`, X bound and read nowhere else in the function  ->  `return <expr>`
    (the position of the assignment is kept).  Behaviour-preserving; makes `res = f(x); return res` and `return f(x)` one form."""
    for fn in [n for n in ast.walk(tree) if isinstance(n, (ast.FunctionDef, ast.AsyncFunctionDef))]:
        # the value assigned is dead after the return unless something that still runs can read it: a nested scope that
        # captured the name, or a `finally` block
        keep: set = set()
        for x in ast.walk(fn):
            if x is not fn and isinstance(x, (ast.FunctionDef, ast.AsyncFunctionDef, ast.Lambda)):
                a_ = x.args
                bound = {p_.arg for p_ in a_.posonlyargs + a_.args + a_.kwonlyargs} | ({a_.vararg.arg} if a_.vararg else set()) | ({a_.kwarg.arg} if a_.kwarg else set())
                nonl = {nm for y in ast.walk(x) if isinstance(y, ast.Nonlocal) for nm in y.names}
                bound |= {y.id for y in ast.walk(x) if isinstance(y, ast.Name) and isinstance(y.ctx, ast.Store)} - nonl
                keep |= {y.id for y in ast.walk(x) if isinstance(y, ast.Name) and y.id not in bound}      # captured from the enclosing scope
            elif isinstance(x, ast.Try):
                keep |= {y.id for st_ in x.finalbody for y in ast.walk(st_) if isinstance(y, ast.Name)}
            elif isinstance(x, (ast.Global, ast.Nonlocal)):
                keep |= set(x.names)
        for blk in ast.walk(fn):
            for fld in ("body", "orelse", "finalbody"):
                b = getattr(blk, fld, None)
                if not (isinstance(b, list) and len(b) >= 2 and isinstance(b[0], ast.stmt)):
                    continue
                i = 0
                out = []
                while i < len(b):
                    s_ = b[i]
                    nxt = b[i + 1] if i + 1 < len(b) else None
                    tgt = s_.targets[0] if isinstance(s_, ast.Assign) and len(s_.targets) == 1 else (s_.target if isinstance(s_, ast.AnnAssign) and s_.value is not None else None)
                    if isinstance(tgt, ast.Name) and isinstance(nxt, ast.Return) and isinstance(nxt.value, ast.Name) and nxt.value.id == tgt.id \
                            and tgt.id not in keep:
                        out.append(ast.copy_location(ast.Return(value=s_.value), s_))
                        i += 2
                        continue
                    out.append(s_)
                    i += 1
                setattr(blk, fld, out)
    return tree


_FUNC_FORM = {"numel", "gather", "clamp", "sqrt", "exp", "log", "sin", "cos", "tan", "atan", "tanh", "reciprocal", "square", "outer"}


def _tcall(name, *args):
    return ast.Call(func=ast.Attribute(value=ast.Name(id="torch", ctx=ast.Load()), attr=name, ctx=ast.Load()), args=list(args), keywords=[])


def _mcall(recv, name, *args):
    return ast.Call(func=ast.Attribute(value=recv, attr=name, ctx=ast.Load()), args=list(args), keywords=[])


class _ExprCanon(ast.NodeTransformer):
    """One spelling for interchangeable torch / python expressions (the spelling the pinned tree uses most):
         a @ b                      -> torch.matmul(a, b)
         x.mH / x.adjoint()         -> x.transpose(-2, -1).conj()        x.mT -> x.transpose(-2, -1)
         torch.neg(x) / x.neg()     -> -x                                torch.conj(x) -> x.conj()
         x.f(..) for f in numel, gather, clamp, sqrt, exp, log, sin, cos, tan, atan, ...  -> torch.f(x, ..)
         x.flatten() / torch.flatten(x)  -> x.reshape(-1)                x.reshape((a, b)) -> x.reshape(a, b)
         x[..., None] -> x.unsqueeze(-1)   x[..., None, :] -> x.unsqueeze(-2)   x[None] -> x.unsqueeze(0)
         torch.linalg.inv(x) -> torch.inverse(x)                         torch.cat(xs, dim=0) -> torch.cat(xs)
         isinstance(x, (A, B)) -> isinstance(x, A) or isinstance(x, B)   [v] * n -> [v for _ in range(n)]  (v a constant)
       Every rewrite is value-preserving (same torch semantics); positions are kept."""

    def visit_BinOp(self, node):
        self.generic_visit(node)
        if isinstance(node.op, ast.MatMult):
            return ast.copy_location(_tcall("matmul", node.left, node.right), node)
        if isinstance(node.op, ast.Mult) and isinstance(node.left, ast.List) and len(node.left.elts) == 1 and isinstance(node.left.elts[0], ast.Constant):
            comp = ast.ListComp(elt=node.left.elts[0], generators=[ast.comprehension(target=ast.Name(id="_", ctx=ast.Store()),
                                iter=ast.Call(func=ast.Name(id="range", ctx=ast.Load()), args=[node.right], keywords=[]), ifs=[], is_async=0)])
            return ast.copy_location(comp, node)
        return node

    def visit_Attribute(self, node):
        self.generic_visit(node)
        if isinstance(node.ctx, ast.Load) and node.attr in ("mH", "mT"):
            t = _mcall(node.value, "transpose", ast.UnaryOp(op=ast.USub(), operand=ast.Constant(2)), ast.UnaryOp(op=ast.USub(), operand=ast.Constant(1)))
            return ast.copy_location(_mcall(t, "conj") if node.attr == "mH" else t, node)
        return node

    def visit_Subscript(self, node):
        self.generic_visit(node)
        if isinstance(node.ctx, ast.Load):
            sl = node.slice
            elts = sl.elts if isinstance(sl, ast.Tuple) else [sl]
            is_none = lambda e: isinstance(e, ast.Constant) and e.value is None
            is_ell = lambda e: isinstance(e, ast.Constant) and e.value is Ellipsis
            is_full = lambda e: isinstance(e, ast.Slice) and e.lower is None and e.upper is None and e.step is None
            k = None
            if len(elts) == 1 and is_none(elts[0]):
                k = 0
            elif len(elts) >= 2 and is_ell(elts[0]) and all(is_none(e) or is_full(e) for e in elts[1:]) and sum(1 for e in elts[1:] if is_none(e)) == 1:
                k = -(sum(1 for e in elts[[i for i, e in enumerate(elts) if is_none(e)][0] + 1:] if is_full(e)) + 1)
            elif len(elts) >= 2 and is_none(elts[-1]) and all(is_full(e) for e in elts[:-1]):
                k = len(elts) - 1
            if k is not None:
                arg = ast.Constant(k) if k >= 0 else ast.UnaryOp(op=ast.USub(), operand=ast.Constant(-k))
                return ast.copy_location(_mcall(node.value, "unsqueeze", arg), node)
        return node

    def _method_canon(self, node):
        f = node.func
        if f.attr in ("reshape", "view") and len(node.args) == 1 and isinstance(node.args[0], ast.Tuple) and not node.keywords and node.args[0].elts:
            node.args = list(node.args[0].elts)
        return node

    def visit_Call(self, node):
        self.generic_visit(node)
        f = node.func
        # a method applied to a conditional receiver is the conditional of the method applied to each arm: (A if c else B).m(x) = A.m(x) if c else B.m(x)
        if isinstance(f, ast.Attribute) and isinstance(f.value, ast.IfExp) and not node.keywords \
                and all(isinstance(a, (ast.Name, ast.Constant)) for a in node.args):
            import copy as _copy
            arms = [ast.copy_location(ast.Call(func=ast.Attribute(value=arm, attr=f.attr, ctx=ast.Load()), args=[_copy.deepcopy(a) for a in node.args], keywords=[]), node)
                    for arm in (f.value.body, f.value.orelse)]
            return ast.copy_location(ast.IfExp(test=f.value.test, body=self.visit_Call(arms[0]), orelse=self.visit_Call(arms[1])), node)
        fn = ast.unparse(f)
        if fn in ("torch.neg",) and len(node.args) == 1 and not node.keywords:
            return ast.copy_location(ast.UnaryOp(op=ast.USub(), operand=node.args[0]), node)
        if fn == "torch.conj" and len(node.args) == 1 and not node.keywords:
            return ast.copy_location(_mcall(node.args[0], "conj"), node)
        if fn == "torch.linalg.inv" and len(node.args) == 1:
            return ast.copy_location(_tcall("inverse", node.args[0]), node)
        if fn in ("torch.reshape", "torch.transpose", "torch.unsqueeze", "torch.squeeze", "torch.permute", "torch.swapaxes") and node.args \
                and not isinstance(node.args[0], ast.Starred) and not any(k.arg in ("input", "self") for k in node.keywords):
            # function form -> method form (the form the package uses)
            new = ast.Call(func=ast.Attribute(value=node.args[0], attr=f.attr, ctx=ast.Load()), args=list(node.args[1:]), keywords=node.keywords)
            return self.visit_Call(ast.copy_location(new, node)) if False else self._method_canon(ast.copy_location(new, node))
        if fn in ("torch.mul", "torch.multiply", "torch.add", "torch.sub", "torch.subtract", "torch.div", "torch.divide", "torch.true_divide") \
                and len(node.args) == 2 and not node.keywords and not any(isinstance(a, ast.Starred) for a in node.args):
            op = {"mul": ast.Mult, "multiply": ast.Mult, "add": ast.Add, "sub": ast.Sub, "subtract": ast.Sub}.get(f.attr, ast.Div)()
            return ast.copy_location(ast.BinOp(left=node.args[0], op=op, right=node.args[1]), node)
        if (fn == "torch.diff" and len(node.args) == 1 and isinstance(node.args[0], (ast.Name, ast.Attribute))) or \
                (isinstance(f, ast.Attribute) and f.attr == "diff" and not node.args and isinstance(f.value, ast.Name) and f.value.id not in ("torch", "np", "numpy")):
            # first difference along the last axis: x[..., 1:] - x[..., :-1]
            kws = {k.arg: k.value for k in node.keywords}
            dim_ok = set(kws) <= {"dim"} and ("dim" not in kws or (isinstance(kws["dim"], ast.UnaryOp) and ast.unparse(kws["dim"]) == "-1"))
            if dim_ok:
                import copy as _copy
                x_ = node.args[0] if fn == "torch.diff" else f.value
                hi = ast.Subscript(value=_copy.deepcopy(x_), slice=ast.Tuple(elts=[ast.Constant(value=Ellipsis), ast.Slice(lower=ast.Constant(value=1), upper=None, step=None)], ctx=ast.Load()), ctx=ast.Load())
                lo = ast.Subscript(value=_copy.deepcopy(x_), slice=ast.Tuple(elts=[ast.Constant(value=Ellipsis), ast.Slice(lower=None, upper=ast.UnaryOp(op=ast.USub(), operand=ast.Constant(value=1)), step=None)], ctx=ast.Load()), ctx=ast.Load())
                return ast.copy_location(ast.BinOp(left=hi, op=ast.Sub(), right=lo), node)
        if fn in ("torch.linalg.vector_norm", "torch.linalg.norm") and 1 <= len(node.args) <= 2 and not any(isinstance(a, ast.Starred) for a in node.args):
            # the infinity norm over all elements is the largest absolute value: x.abs().max()
            kws = {k.arg: k.value for k in node.keywords}
            o_ = node.args[1] if len(node.args) == 2 else kws.get("ord")
            is_vec = fn.endswith("vector_norm") or (isinstance(node.args[0], ast.Call) and ast.unparse(node.args[0]).endswith(".reshape(-1)"))
            if o_ is not None and set(kws) <= {"ord"} and is_vec and ast.unparse(o_).replace('"', "'") in ("float('inf')", "math.inf", "torch.inf", "np.inf", "numpy.inf"):
                return self.visit_Call(ast.copy_location(_mcall(_mcall(node.args[0], "abs"), "max"), node))
        if (fn == "torch.amax" and len(node.args) == 1 and not node.keywords) or \
                (isinstance(f, ast.Attribute) and f.attr == "amax" and not node.args and not node.keywords and not (isinstance(f.value, ast.Name) and f.value.id in ("torch", "np", "numpy"))):
            x_ = node.args[0] if fn == "torch.amax" else f.value
            return self.visit_Call(ast.copy_location(_mcall(x_, "max"), node))
        if fn == "torch.einsum" and node.args and isinstance(node.args[0], ast.Constant) and isinstance(node.args[0].value, str):
            # index letters are bound names: rename them in order of first appearance (r, c, a, b, ..) so that equal contractions read the same
            spec = node.args[0].value.replace(" ", "")
            alphabet = "rcabdefghijklmnopqstuvwxyz"
            seen_: Dict[str, str] = {}
            out_ = []
            for ch in spec:
                if ch.isalpha():
                    if ch not in seen_ and len(seen_) < len(alphabet):
                        seen_[ch] = alphabet[len(seen_)]
                    out_.append(seen_.get(ch, ch))
                else:
                    out_.append(ch)
            node.args[0] = ast.copy_location(ast.Constant(value="".join(out_)), node.args[0])
            return node
        # (X * Y).sum(dim=-2[, keepdim=True]) / torch.sum(X * Y, dim=-2, ..): the column-wise contraction einsum("...rc,...rc->...c", X, Y)[.unsqueeze(-2)]
        sm_ = None
        if isinstance(f, ast.Attribute) and f.attr == "sum" and isinstance(f.value, ast.BinOp) and isinstance(f.value.op, ast.Mult):
            sm_ = (f.value, list(node.args), node.keywords)
        elif fn == "torch.sum" and node.args and isinstance(node.args[0], ast.BinOp) and isinstance(node.args[0].op, ast.Mult):
            sm_ = (node.args[0], list(node.args[1:]), node.keywords)
        if sm_ is not None:
            kws = {k.arg: k.value for k in sm_[2]}
            d_ = kws.get("dim", kws.get("axis", sm_[1][0] if sm_[1] else None))
            kd_ = kws.get("keepdim", sm_[1][1] if len(sm_[1]) > 1 else None)
            if d_ is not None and ast.unparse(d_) == "-2" and set(kws) <= {"dim", "axis", "keepdim"} and len(sm_[1]) <= 2 \
                    and (kd_ is None or (isinstance(kd_, ast.Constant) and isinstance(kd_.value, bool))):
                es = _tcall("einsum", ast.Constant(value="...rc,...rc->...c"), sm_[0].left, sm_[0].right)
                if kd_ is not None and kd_.value:
                    es = _mcall(es, "unsqueeze", ast.UnaryOp(op=ast.USub(), operand=ast.Constant(2)))
                return ast.copy_location(es, node)
        cm_ = None
        if fn in ("torch.clamp_min", "torch.clamp_max") and len(node.args) == 2 and not node.keywords:
            cm_ = (node.args[0], node.args[1], f.attr)
        elif isinstance(f, ast.Attribute) and f.attr in ("clamp_min", "clamp_max") and len(node.args) == 1 and not node.keywords \
                and not (isinstance(f.value, ast.Name) and f.value.id in ("torch", "np", "numpy")):
            cm_ = (f.value, node.args[0], f.attr)
        if cm_ is not None:
            new = ast.Call(func=ast.Attribute(value=ast.Name(id="torch", ctx=ast.Load()), attr="clamp", ctx=ast.Load()), args=[cm_[0]],
                           keywords=[ast.keyword(arg="min" if cm_[2] == "clamp_min" else "max", value=cm_[1])])
            return ast.copy_location(new, node)
        # fused forms: addcmul(a, b, c, value=v) = a + v*b*c; addcdiv(a, b, c, value=v) = a + v*b/c; lerp(a, b, w) = a + w*(b - a)
        fz_ = None
        if fn in ("torch.addcmul", "torch.addcdiv", "torch.lerp") and len(node.args) == 3 and not any(isinstance(a, ast.Starred) for a in node.args):
            fz_ = (f.attr, list(node.args))
        elif isinstance(f, ast.Attribute) and f.attr in ("addcmul", "addcdiv", "lerp") and len(node.args) == 2 \
                and not (isinstance(f.value, ast.Name) and f.value.id in ("torch", "np", "numpy")) and not any(isinstance(a, ast.Starred) for a in node.args):
            fz_ = (f.attr, [f.value] + list(node.args))
        if fz_ is not None and {k.arg for k in node.keywords} <= ({"value"} if fz_[0] != "lerp" else set()):
            a_, b_, c_ = fz_[1]
            if fz_[0] == "lerp":
                prod_ = ast.BinOp(left=c_, op=ast.Mult(), right=ast.BinOp(left=b_, op=ast.Sub(), right=a_))
            else:
                prod_ = ast.BinOp(left=b_, op=ast.Mult() if fz_[0] == "addcmul" else ast.Div(), right=c_)
                if node.keywords:
                    prod_ = ast.BinOp(left=node.keywords[0].value, op=ast.Mult(), right=prod_)
            return ast.copy_location(ast.BinOp(left=a_, op=ast.Add(), right=prod_), node)
        if fn == "torch.flatten" and len(node.args) == 1 and not node.keywords:
            return ast.copy_location(_mcall(node.args[0], "reshape", ast.UnaryOp(op=ast.USub(), operand=ast.Constant(1))), node)
        if fn in ("torch.autograd.grad", "autograd.grad") and node.args:
            # a one-element tuple of outputs / grad_outputs is the element itself
            if isinstance(node.args[0], (ast.Tuple, ast.List)) and len(node.args[0].elts) == 1 and not isinstance(node.args[0].elts[0], ast.Starred):
                node.args[0] = node.args[0].elts[0]
            for k in node.keywords:
                if k.arg in ("grad_outputs", "outputs") and isinstance(k.value, (ast.Tuple, ast.List)) and len(k.value.elts) == 1 \
                        and not isinstance(k.value.elts[0], ast.Starred):
                    k.value = k.value.elts[0]
            return node
        # x.narrow(d, start, length) / torch.narrow(x, d, start, length) with d in (-1, 0) is the slice x[..., start:start+length] / x[start:..]
        nargs = ([f.value] + list(node.args)) if (isinstance(f, ast.Attribute) and f.attr == "narrow" and fn != "torch.narrow") else (list(node.args) if fn == "torch.narrow" else None)
        if nargs is not None and len(nargs) == 4 and not node.keywords:
            try:
                d_ = ast.literal_eval(nargs[1])
            except Exception:
                d_ = None
            if d_ in (-1, 0):
                st_, ln_ = nargs[2], nargs[3]
                if isinstance(ln_, ast.BinOp) and isinstance(ln_.op, ast.Sub) and ast.unparse(ln_.right) == ast.unparse(st_):
                    up_ = ln_.left
                else:
                    up_ = ast.BinOp(left=st_, op=ast.Add(), right=ln_)
                sl_ = ast.Slice(lower=st_, upper=up_, step=None)
                idx_ = sl_ if d_ == 0 else ast.Tuple(elts=[ast.Constant(value=Ellipsis), sl_], ctx=ast.Load())
                return ast.copy_location(ast.Subscript(value=nargs[0], slice=idx_, ctx=ast.Load()), node)
        if fn == "torch.cat" and len(node.args) == 1 and len(node.keywords) == 1 and node.keywords[0].arg == "dim" \
                and isinstance(node.keywords[0].value, ast.Constant) and node.keywords[0].value.value == 0:
            node.keywords = []
            return node
        if fn == "isinstance" and len(node.args) == 2 and isinstance(node.args[1], ast.Tuple) and node.args[1].elts:
            calls = [ast.Call(func=ast.Name(id="isinstance", ctx=ast.Load()), args=[node.args[0], t], keywords=[]) for t in node.args[1].elts]
            return ast.copy_location(calls[0] if len(calls) == 1 else ast.BoolOp(op=ast.Or(), values=calls), node)
        if isinstance(f, ast.Attribute):
            recv_root = f.value
            while isinstance(recv_root, (ast.Attribute, ast.Subscript, ast.Call)):
                recv_root = recv_root.value if not isinstance(recv_root, ast.Call) else recv_root.func
            is_module = isinstance(f.value, ast.Name) and f.value.id in ("torch", "np", "numpy", "math", "F")
            if not is_module:
                if f.attr == "neg" and not node.args and not node.keywords:
                    return ast.copy_location(ast.UnaryOp(op=ast.USub(), operand=f.value), node)
                if f.attr == "adjoint" and not node.args:
                    t = _mcall(f.value, "transpose", ast.UnaryOp(op=ast.USub(), operand=ast.Constant(2)), ast.UnaryOp(op=ast.USub(), operand=ast.Constant(1)))
                    return ast.copy_location(_mcall(t, "conj"), node)
                if f.attr == "flatten" and not node.args and not node.keywords:
                    return ast.copy_location(_mcall(f.value, "reshape", ast.UnaryOp(op=ast.USub(), operand=ast.Constant(1))), node)
                if f.attr in ("reshape", "view") and len(node.args) == 1 and isinstance(node.args[0], ast.Tuple) and not node.keywords \
                        and node.args[0].elts:
                    node.args = list(node.args[0].elts)
                    return node
                if f.attr in _FUNC_FORM and not (isinstance(f.value, ast.Name) and f.value.id == "self"):
                    new = ast.Call(func=ast.Attribute(value=ast.Name(id="torch", ctx=ast.Load()), attr=f.attr, ctx=ast.Load()),
                                   args=[f.value] + list(node.args), keywords=node.keywords)
                    return ast.copy_location(new, node)
        return node


def _enumerate_ranges(tree):
    """`for j, i in enumerate(range(lo, hi, step)): BODY`  ->  `for i in range(lo, hi, step): j = i // step - lo // step; BODY` for integer
    constants lo >= 0, step > 0 (i runs over lo, lo + step, ..: its position in the range is (i - lo) / step = i // step - lo // step)."""
    for loop in ast.walk(tree):
        if not (isinstance(loop, ast.For) and isinstance(loop.target, ast.Tuple) and len(loop.target.elts) == 2
                and all(isinstance(t, ast.Name) for t in loop.target.elts) and isinstance(loop.iter, ast.Call)
                and isinstance(loop.iter.func, ast.Name) and loop.iter.func.id == "enumerate" and len(loop.iter.args) == 1 and not loop.iter.keywords):
            continue
        rg = loop.iter.args[0]
        if not (isinstance(rg, ast.Call) and isinstance(rg.func, ast.Name) and rg.func.id == "range" and 1 <= len(rg.args) <= 3 and not rg.keywords):
            continue
        lo = rg.args[0] if len(rg.args) >= 2 else ast.Constant(value=0)
        step = rg.args[2] if len(rg.args) == 3 else ast.Constant(value=1)
        if not (isinstance(lo, ast.Constant) and isinstance(lo.value, int) and lo.value >= 0 and isinstance(step, ast.Constant)
                and isinstance(step.value, int) and step.value > 0):
            continue
        j, i = loop.target.elts
        if any(isinstance(n, ast.Name) and isinstance(n.ctx, ast.Store) and n.id in (i.id, j.id) for st in loop.body for n in ast.walk(st)):
            continue
        pos = ast.Name(id=i.id, ctx=ast.Load())
        if step.value != 1:
            pos = ast.BinOp(left=pos, op=ast.FloorDiv(), right=ast.Constant(value=step.value))
        off = lo.value // step.value
        if off:
            pos = ast.BinOp(left=pos, op=ast.Sub(), right=ast.Constant(value=off))
        loop.target = ast.copy_location(ast.Name(id=i.id, ctx=ast.Store()), loop.target)
        loop.iter = rg
        loop.body = [ast.copy_location(ast.Assign(targets=[ast.Name(id=j.id, ctx=ast.Store())], value=pos), loop)] + list(loop.body)
        ast.fix_missing_locations(loop)
    return tree


def _peel_iterators(tree):
    """`it = zip(A, B)` / `it = iter(A)`; `a, b = next(it)` (k times); `for x, y in it:`  ->  `a, b = A[0], B[0]`; ...;
    `for x, y in zip(A[k:], B[k:]):` when `it` has no other use, the statements are in one block and the sequences are plain names
    that are not re-bound in between.  (Consuming an iterator with `next` and then a loop visits the same elements as indexing and
    slicing for sequences and tensors.)"""
    for owner in ast.walk(tree):
        if not isinstance(owner, (ast.FunctionDef, ast.AsyncFunctionDef)):
            continue
        for blk_owner in ast.walk(owner):
            for fld in ("body", "orelse", "finalbody"):
                b = getattr(blk_owner, fld, None)
                if not (isinstance(b, list) and b and isinstance(b[0], ast.stmt)):
                    continue
                for i, st in enumerate(b):
                    if not (isinstance(st, ast.Assign) and len(st.targets) == 1 and isinstance(st.targets[0], ast.Name)
                            and isinstance(st.value, ast.Call) and isinstance(st.value.func, ast.Name) and st.value.func.id in ("zip", "iter")
                            and not st.value.keywords and st.value.args and all(isinstance(a, ast.Name) for a in st.value.args)):
                        continue
                    if st.value.func.id == "iter" and len(st.value.args) != 1:
                        continue
                    it = st.targets[0].id
                    seqs = [a.id for a in st.value.args]
                    uses = [n for n in ast.walk(owner) if isinstance(n, ast.Name) and n.id == it]
                    k = 0
                    plan = []
                    ok = True
                    loop_at = None
                    for j in range(i + 1, len(b)):
                        t = b[j]
                        mentions = [n for n in ast.walk(t) if isinstance(n, ast.Name) and n.id == it]
                        rebinds = [n for n in ast.walk(t) if isinstance(n, ast.Name) and isinstance(n.ctx, ast.Store) and n.id in seqs]
                        if rebinds and not mentions:
                            ok = False
                            break
                        if not mentions:
                            continue
                        if isinstance(t, ast.Assign) and len(t.targets) == 1 and isinstance(t.value, ast.Call) and isinstance(t.value.func, ast.Name) \
                                and t.value.func.id == "next" and len(t.value.args) == 1 and isinstance(t.value.args[0], ast.Name) and len(mentions) == 1:
                            plan.append((j, k))
                            k += 1
                            continue
                        if isinstance(t, ast.For) and isinstance(t.iter, ast.Name) and t.iter.id == it and len(mentions) == 1 and not t.orelse:
                            loop_at = j
                            break
                        ok = False
                        break
                    if not ok or loop_at is None or len(uses) != 1 + len(plan) + 1:
                        continue

                    def item(name, kk, like):
                        return ast.copy_location(ast.Subscript(value=ast.Name(id=name, ctx=ast.Load()), slice=ast.Constant(value=kk), ctx=ast.Load()), like)

                    def tail(name, kk, like):
                        return ast.copy_location(ast.Subscript(value=ast.Name(id=name, ctx=ast.Load()), slice=ast.Slice(lower=ast.Constant(value=kk), upper=None, step=None), ctx=ast.Load()), like)

                    is_zip = st.value.func.id == "zip"
                    for j, kk in plan:
                        t = b[j]
                        t.value = ast.copy_location(ast.Tuple(elts=[item(s_, kk, t) for s_ in seqs], ctx=ast.Load()), t) if is_zip else item(seqs[0], kk, t)
                    lp = b[loop_at]
                    if is_zip:
                        lp.iter = ast.copy_location(ast.Call(func=ast.Name(id="zip", ctx=ast.Load()), args=[tail(s_, k, lp) if k else ast.Name(id=s_, ctx=ast.Load()) for s_ in seqs], keywords=[]), lp)
                    else:
                        lp.iter = tail(seqs[0], k, lp) if k else ast.copy_location(ast.Name(id=seqs[0], ctx=ast.Load()), lp)
                    b[i] = ast.copy_location(ast.Pass(), st)
                    if len(b) > 1:
                        del b[i]
                    ast.fix_missing_locations(owner)
                    break
    return tree


def _unpack_saved_tensors(tree):
    """(starred unpacking only; a plain `a, b = ctx.saved_tensors` is already what the rules read)  `a, b, *rest = ctx.saved_tensors`  ->  `saved_tensors = ctx.saved_tensors; a = saved_tensors[0]; b = saved_tensors[1]; rest = list(saved_tensors[2:])`
    (unpacking a tuple is indexing it; the starred target receives a list).  Only for the autograd context's tuple, whose positions the rules
    reason about."""
    for fn in [n for n in ast.walk(tree) if isinstance(n, (ast.FunctionDef, ast.AsyncFunctionDef))]:
        used = {n.id for n in ast.walk(fn) if isinstance(n, ast.Name)}
        for owner in ast.walk(fn):
            for fld in ("body", "orelse", "finalbody"):
                b = getattr(owner, fld, None)
                if not (isinstance(b, list) and b and isinstance(b[0], ast.stmt)):
                    continue
                out = []
                for st in b:
                    tg = st.targets[0] if isinstance(st, ast.Assign) and len(st.targets) == 1 else None
                    if isinstance(tg, (ast.Tuple, ast.List)) and isinstance(st.value, ast.Attribute) and st.value.attr == "saved_tensors" \
                            and all(isinstance(e, ast.Name) or (isinstance(e, ast.Starred) and isinstance(e.value, ast.Name)) for e in tg.elts) \
                            and sum(isinstance(e, ast.Starred) for e in tg.elts) == 1 and "saved_tensors" not in used:
                        tmp = "saved_tensors"
                        used.add(tmp)
                        out.append(ast.copy_location(ast.Assign(targets=[ast.Name(id=tmp, ctx=ast.Store())], value=st.value), st))
                        n_after = 0
                        star_at = next((i for i, e in enumerate(tg.elts) if isinstance(e, ast.Starred)), None)
                        for i, e in enumerate(tg.elts):
                            if isinstance(e, ast.Starred):
                                n_after = len(tg.elts) - i - 1
                                sl = ast.Slice(lower=ast.Constant(value=i) if i else None, upper=ast.UnaryOp(op=ast.USub(), operand=ast.Constant(value=n_after)) if n_after else None, step=None)
                                val = ast.Call(func=ast.Name(id="list", ctx=ast.Load()), args=[ast.Subscript(value=ast.Name(id=tmp, ctx=ast.Load()), slice=sl, ctx=ast.Load())], keywords=[])
                                out.append(ast.copy_location(ast.Assign(targets=[ast.Name(id=e.value.id, ctx=ast.Store())], value=val), st))
                            else:
                                idx = ast.Constant(value=i) if star_at is None or i < star_at else ast.UnaryOp(op=ast.USub(), operand=ast.Constant(value=len(tg.elts) - i))
                                out.append(ast.copy_location(ast.Assign(targets=[ast.Name(id=e.id, ctx=ast.Store())],
                                                                        value=ast.Subscript(value=ast.Name(id=tmp, ctx=ast.Load()), slice=idx, ctx=ast.Load())), st))
                        continue
                    out.append(st)
                setattr(owner, fld, out)
    return ast.fix_missing_locations(tree)


def _split_tuple_assigns(tree):
    """`a, b = (x, y)` -> `a = x; b = y` when no right-hand side mentions a left-hand name (so the order does not matter)"""
    for owner in ast.walk(tree):
        for fld in ("body", "orelse", "finalbody"):
            b = getattr(owner, fld, None)
            if not (isinstance(b, list) and b and isinstance(b[0], ast.stmt)):
                continue
            out = []
            for st in b:
                if isinstance(st, ast.Assign) and len(st.targets) == 1 and isinstance(st.targets[0], (ast.Tuple, ast.List)) \
                        and isinstance(st.value, (ast.Tuple, ast.List)) and len(st.targets[0].elts) == len(st.value.elts) \
                        and all(isinstance(t, ast.Name) for t in st.targets[0].elts) and not any(isinstance(v, ast.Starred) for v in st.value.elts):
                    lhs = {t.id for t in st.targets[0].elts}
                    rhs = {n.id for v in st.value.elts for n in ast.walk(v) if isinstance(n, ast.Name)}
                    if not (lhs & rhs):
                        for t, v in zip(st.targets[0].elts, st.value.elts):
                            out.append(ast.copy_location(ast.Assign(targets=[t], value=v), st))
                        continue
                out.append(st)
            setattr(owner, fld, out)
    return tree


def _forelse_to_flag(tree):
    """`for ..: BODY else: E`  ->  `flag = False; for ..: BODY[break := flag = True; break]; if not flag: E` (same for while).
    Behaviour-preserving; turns the loop-else idiom into the flag idiom the exit-path rules reason about."""
    counter = [0]

    def own_breaks(loop):
        out = []
        stack = list(loop.body)
        while stack:
            n = stack.pop()
            if isinstance(n, ast.Break):
                out.append(n)
            if isinstance(n, (ast.For, ast.While, ast.AsyncFor, ast.FunctionDef, ast.AsyncFunctionDef, ast.Lambda, ast.ClassDef)):
                continue
            stack.extend(ast.iter_child_nodes(n))
        return out

    def replace_breaks(stmts, flag):
        out = []
        for st in stmts:
            if isinstance(st, ast.Break):
                a = ast.copy_location(ast.Assign(targets=[ast.Name(id=flag, ctx=ast.Store())], value=ast.Constant(value=True)), st)
                out.extend([a, st])
                continue
            if not isinstance(st, (ast.For, ast.While, ast.AsyncFor, ast.FunctionDef, ast.AsyncFunctionDef, ast.ClassDef)):
                for fld in ("body", "orelse", "finalbody"):
                    b = getattr(st, fld, None)
                    if isinstance(b, list) and b and isinstance(b[0], ast.stmt):
                        setattr(st, fld, replace_breaks(b, flag))
                for h in getattr(st, "handlers", []) or []:
                    h.body = replace_breaks(h.body, flag)
            out.append(st)
        return out

    def fix(stmts):
        out = []
        for st in stmts:
            for fld in ("body", "orelse", "finalbody"):
                b = getattr(st, fld, None)
                if isinstance(b, list) and b and isinstance(b[0], ast.stmt):
                    setattr(st, fld, fix(b))
            for h in getattr(st, "handlers", []) or []:
                h.body = fix(h.body)
            if isinstance(st, (ast.For, ast.While)) and st.orelse and own_breaks(st):
                counter[0] += 1
                flag = "_left_loop%d" % counter[0]
                init = ast.copy_location(ast.Assign(targets=[ast.Name(id=flag, ctx=ast.Store())], value=ast.Constant(value=False)), st)
                st.body = replace_breaks(st.body, flag)
                tail = ast.copy_location(ast.If(test=ast.UnaryOp(op=ast.Not(), operand=ast.Name(id=flag, ctx=ast.Load())), body=st.orelse, orelse=[]), st.orelse[0])
                st.orelse = []
                out.extend([init, st, tail])
                continue
            out.append(st)
        return out
    for n in ast.walk(tree):
        if isinstance(n, (ast.FunctionDef, ast.AsyncFunctionDef)):
            n.body = fix(n.body)
    return ast.fix_missing_locations(tree)


def _strip_local_annotations(tree):
    """`x: T = v` inside a function body is `x = v` (annotations of locals are never evaluated)"""
    class T(ast.NodeTransformer):
        def __init__(self):
            self.depth = 0

        def visit_FunctionDef(self, node):
            self.depth += 1
            self.generic_visit(node)
            self.depth -= 1
            return node
        visit_AsyncFunctionDef = visit_FunctionDef

        def visit_ClassDef(self, node):
            d, self.depth = self.depth, 0
            self.generic_visit(node)
            self.depth = d
            return node

        def visit_AnnAssign(self, node):
            if self.depth and node.value is not None:
                return ast.copy_location(ast.Assign(targets=[node.target], value=node.value), node)
            return node
    return T().visit(tree)


def _const_value(e):
    try:
        return ast.literal_eval(e)
    except Exception:
        return _const_value        # sentinel: not a constant


def _unroll_constant_tables(tree):
    """`for a, b in TABLE: BODY` with TABLE a module-level tuple / list literal of constants (assigned once, at most 16 rows) is
    unrolled: BODY with the row's constants substituted, once per row.  `setattr(o, "name", v)` / `getattr(o, "name")` with a constant
    identifier become `o.name = v` / `o.name`.  Table-driven and spelled-out code then read the same."""
    import copy as _copy
    import keyword
    tables = {}
    counts: Dict[str, int] = {}
    for st in tree.body:
        for t in (st.targets if isinstance(st, ast.Assign) else [st.target] if isinstance(st, (ast.AnnAssign, ast.AugAssign)) else []):
            if isinstance(t, ast.Name):
                counts[t.id] = counts.get(t.id, 0) + 1
                if isinstance(st, (ast.Assign, ast.AnnAssign)) and st.value is not None and isinstance(st.value, (ast.Tuple, ast.List)):
                    v = _const_value(st.value)
                    if v is not _const_value and 0 < len(v) <= 16:
                        tables[t.id] = st.value
    tables = {k: v for k, v in tables.items() if counts.get(k) == 1}

    def plain_attr(name):
        return isinstance(name, str) and name.isidentifier() and not keyword.iskeyword(name) and not (name.startswith("__") and not name.endswith("__"))

    class Attr(ast.NodeTransformer):
        def visit_Expr(self, node):
            self.generic_visit(node)
            c = node.value
            if isinstance(c, ast.Call) and isinstance(c.func, ast.Name) and c.func.id == "setattr" and len(c.args) == 3 and not c.keywords \
                    and isinstance(c.args[1], ast.Constant) and plain_attr(c.args[1].value):
                return ast.copy_location(ast.Assign(targets=[ast.Attribute(value=c.args[0], attr=c.args[1].value, ctx=ast.Store())], value=c.args[2]), node)
            return node

        def visit_Call(self, node):
            self.generic_visit(node)
            if isinstance(node.func, ast.Name) and node.func.id == "getattr" and len(node.args) == 2 and not node.keywords \
                    and isinstance(node.args[1], ast.Constant) and plain_attr(node.args[1].value):
                return ast.copy_location(ast.Attribute(value=node.args[0], attr=node.args[1].value, ctx=ast.Load()), node)
            return node

    class Sub(ast.NodeTransformer):
        def __init__(self, mapping):
            self.mapping = mapping

        def visit_Name(self, node):
            if node.id in self.mapping and isinstance(node.ctx, ast.Load):
                return ast.copy_location(_copy.deepcopy(self.mapping[node.id]), node)
            return node

    remote_dead = []

    def local_stores(fn):
        return {n.id for n in ast.walk(fn) if isinstance(n, ast.Name) and isinstance(n.ctx, ast.Store)} | {a.arg for a in ast.walk(fn) if isinstance(a, ast.arg)}

    def unroll_block(stmts, shadow, fn=None):
        out = []
        for st in stmts:
            for fld in ("body", "orelse", "finalbody"):
                b = getattr(st, fld, None)
                if isinstance(b, list) and b and isinstance(b[0], ast.stmt) and not isinstance(st, (ast.FunctionDef, ast.AsyncFunctionDef, ast.ClassDef)):
                    setattr(st, fld, unroll_block(b, shadow, fn))
            for h in getattr(st, "handlers", []) or []:
                h.body = unroll_block(h.body, shadow, fn)
            local_tbl = None
            if isinstance(st, ast.For) and not st.orelse and fn is not None:
                local_tbl = _local_table(st, out, fn)
            if local_tbl is not None or (isinstance(st, ast.For) and not st.orelse and isinstance(st.iter, ast.Name) and st.iter.id in tables and st.iter.id not in shadow):
                def _pattern_names(t_):
                    if isinstance(t_, ast.Name):
                        return [t_.id]
                    if isinstance(t_, (ast.Tuple, ast.List)) and not any(isinstance(e, ast.Starred) for e in t_.elts):
                        out_ = []
                        for e in t_.elts:
                            sub_ = _pattern_names(e)
                            if sub_ is None:
                                return None
                            out_.extend(sub_)
                        return out_
                    return None

                def _match_pattern(t_, row_):
                    """bind the names of a (possibly nested) tuple pattern to the sub-expressions of a literal row; None when the shapes differ"""
                    if isinstance(t_, ast.Name):
                        return {t_.id: row_}
                    if isinstance(row_, (ast.Tuple, ast.List)) and len(row_.elts) == len(t_.elts) and not any(isinstance(e, ast.Starred) for e in row_.elts):
                        m_ = {}
                        for a_, b_ in zip(t_.elts, row_.elts):
                            sub_ = _match_pattern(a_, b_)
                            if sub_ is None:
                                return None
                            m_.update(sub_)
                        return m_
                    return None
                tnames = _pattern_names(st.target)
                rows = local_tbl[0].elts if local_tbl is not None else tables[st.iter.id].elts
                inner = [n for b in st.body for n in ast.walk(b)]
                simple = tnames is not None and not any(isinstance(n, (ast.Break, ast.Continue, ast.FunctionDef, ast.Lambda, ast.ClassDef, ast.Yield, ast.YieldFrom)) for n in inner) \
                    and not any(isinstance(n, ast.Name) and n.id in tnames and isinstance(n.ctx, (ast.Store, ast.Del)) for n in inner)
                if simple and fn is not None:
                    inside = {id(n) for n in ast.walk(st)}
                    # occurrences inside another loop that binds the same names itself never see this loop's last values
                    for f2 in ast.walk(fn):
                        if isinstance(f2, ast.For) and f2 is not st and id(f2) not in inside:
                            t2 = {n.id for n in ast.walk(f2.target) if isinstance(n, ast.Name)}
                            if set(tnames) <= t2:
                                inside |= {id(n) for n in ast.walk(f2.target)} | {id(n) for b in f2.body for n in ast.walk(b)}
                    simple = not any(isinstance(n, ast.Name) and n.id in tnames and id(n) not in inside for n in ast.walk(fn))
                if simple:
                    ok_rows = all(_match_pattern(st.target, r) is not None for r in rows)
                    # the loop variables must not be read after the loop (they would keep the last row's values)
                    if ok_rows:
                        new = []
                        for r in rows:
                            mapping = _match_pattern(st.target, r)
                            for b in st.body:
                                nb = Sub(mapping).visit(_copy.deepcopy(b))
                                new.append(ast.copy_location(nb, st))
                        for nb in new:
                            for x in ast.walk(nb):
                                if hasattr(x, "lineno"):
                                    x.lineno, x.col_offset = st.lineno, st.col_offset
                                    x.end_lineno, x.end_col_offset = getattr(st, "end_lineno", st.lineno), getattr(st, "end_col_offset", st.col_offset)
                        if local_tbl is not None and local_tbl[1] is not None:
                            if local_tbl[1] in out:
                                out.remove(local_tbl[1])       # the table's only reader was this loop
                            else:
                                remote_dead.append(local_tbl[1])
                        out.extend(new)
                        continue
            out.append(st)
        return out

    def _pure(e) -> bool:
        return all(isinstance(n, (ast.Name, ast.Constant, ast.Subscript, ast.Attribute, ast.BinOp, ast.UnaryOp, ast.Tuple, ast.Slice, ast.Load, ast.operator, ast.unaryop))
                   for n in ast.walk(e))

    def _local_table(loop, before, fn):
        """(literal rows, defining statement or None) of `for .. in <literal table>` / `for .. in name` with `name = <literal table>` the statement
        just before the loop, name read nowhere else; the rows are side-effect free expressions over names the loop body never writes"""
        lit, dst = None, None
        if isinstance(loop.iter, (ast.Tuple, ast.List)):
            lit = loop.iter
        elif isinstance(loop.iter, ast.Name) and before and isinstance(before[-1], ast.Assign) and len(before[-1].targets) == 1 \
                and isinstance(before[-1].targets[0], ast.Name) and before[-1].targets[0].id == loop.iter.id and isinstance(before[-1].value, (ast.Tuple, ast.List)):
            nm = loop.iter.id
            uses = [n for n in ast.walk(fn) if isinstance(n, ast.Name) and n.id == nm]
            if len(uses) == 2:
                lit, dst = before[-1].value, before[-1]
        if lit is None and isinstance(loop.iter, ast.Name):
            # the table is defined earlier in the function (e.g. before an enclosing loop): one definition, this loop its only reader, and
            # nothing the rows mention is written after the definition
            nm = loop.iter.id
            uses = [n for n in ast.walk(fn) if isinstance(n, ast.Name) and n.id == nm]
            defs_ = [a for a in ast.walk(fn) if isinstance(a, ast.Assign) and len(a.targets) == 1 and isinstance(a.targets[0], ast.Name) and a.targets[0].id == nm
                     and isinstance(a.value, (ast.Tuple, ast.List))]
            if len(uses) == 2 and len(defs_) == 1 and defs_[0] in fn.body and defs_[0].lineno < loop.lineno:
                d_ = defs_[0]
                rn_ = {n.id for n in ast.walk(d_.value) if isinstance(n, ast.Name)}
                later = [x for x in fn.body[fn.body.index(d_) + 1:]]
                clean = True
                for x in later:
                    for n in ast.walk(x):
                        if isinstance(n, ast.Name) and n.id in rn_ and isinstance(n.ctx, (ast.Store, ast.Del)):
                            clean = False
                        if isinstance(n, (ast.Subscript, ast.Attribute)) and isinstance(n.ctx, ast.Store):
                            r_ = n
                            while isinstance(r_, (ast.Subscript, ast.Attribute)):
                                r_ = r_.value
                            if isinstance(r_, ast.Name) and r_.id in rn_:
                                clean = False
                        if isinstance(n, ast.Call) and isinstance(n.func, ast.Attribute) and n.func.attr.endswith("_") and not n.func.attr.startswith("_"):
                            r_ = n.func.value
                            while isinstance(r_, (ast.Subscript, ast.Attribute)):
                                r_ = r_.value
                            if isinstance(r_, ast.Name) and r_.id in rn_:
                                clean = False
                if clean:
                    lit, dst = d_.value, d_
        if lit is None or not (0 < len(lit.elts) <= 8) or any(isinstance(r, ast.Starred) for r in lit.elts) or not _pure(lit):
            return None
        if _const_value(lit) is not _const_value:
            return None if dst is None and False else (lit, dst)
        row_names = {n.id for n in ast.walk(lit) if isinstance(n, ast.Name)}
        for b in loop.body:
            for n in ast.walk(b):
                if isinstance(n, ast.Name) and n.id in row_names and isinstance(n.ctx, (ast.Store, ast.Del)):
                    return None
                if isinstance(n, (ast.Subscript, ast.Attribute)) and isinstance(n.ctx, ast.Store):
                    r_ = n
                    while isinstance(r_, (ast.Subscript, ast.Attribute)):
                        r_ = r_.value
                    if isinstance(r_, ast.Name) and r_.id in row_names:
                        return None
                if isinstance(n, ast.Call) and isinstance(n.func, ast.Attribute) and n.func.attr.endswith("_") and not n.func.attr.startswith("_"):
                    r_ = n.func.value
                    while isinstance(r_, (ast.Subscript, ast.Attribute)):
                        r_ = r_.value
                    if isinstance(r_, ast.Name) and r_.id in row_names:
                        return None
        return (lit, dst)

    if True:
        for fn in [n for n in ast.walk(tree) if isinstance(n, (ast.FunctionDef, ast.AsyncFunctionDef))]:
            loc = local_stores(fn)
            del remote_dead[:]
            fn.body = unroll_block(fn.body, {t for t in tables if t in loc}, fn)
            fn.body = [x for x in fn.body if not any(x is d_ for d_ in remote_dead)] or [ast.Pass()]
    return Attr().visit(tree)


def _loop_returns_to_flag(tree):
    """In a function that issues a warning itself, a loop (no `else`) that is left by `return E` becomes the flag idiom:
        flag = False; for ..: .. [flag = True; ret = E; break] ..; if not flag: <statements after the loop>; return ret
    Behaviour-preserving (the statements after the loop run exactly when the loop was not left by one of its returns).  It turns
    'return the converged iterate from inside the loop, warn after it' into the shape the warn-or-converged typestate reasons about.
    Only loops that are direct statements of the function body are rewritten; returns inside nested loops, try/finally or nested
    functions leave the loop alone."""
    counter = [0]

    def own_level_returns(loop):
        """(returns reachable without entering a nested loop / function / try) and whether any other return exists"""
        good, other = [], False
        stack = [(b, False) for b in loop.body]
        while stack:
            n, blocked = stack.pop()
            if isinstance(n, ast.Return):
                if blocked:
                    other = True
                else:
                    good.append(n)
                continue
            if isinstance(n, (ast.FunctionDef, ast.AsyncFunctionDef, ast.Lambda, ast.ClassDef)):
                continue
            nb = blocked or isinstance(n, (ast.For, ast.While, ast.AsyncFor, ast.Try))
            for ch in ast.iter_child_nodes(n):
                stack.append((ch, nb))
        return good, other

    def replace(stmts, flag, ret):
        out = []
        for st in stmts:
            if isinstance(st, ast.Return):
                val = st.value if st.value is not None else ast.Constant(value=None)
                out.append(ast.copy_location(ast.Assign(targets=[ast.Name(id=flag, ctx=ast.Store())], value=ast.Constant(value=True)), st))
                out.append(ast.copy_location(ast.Assign(targets=[ast.Name(id=ret, ctx=ast.Store())], value=val), st))
                out.append(ast.copy_location(ast.Break(), st))
                continue
            if not isinstance(st, (ast.For, ast.While, ast.AsyncFor, ast.Try, ast.FunctionDef, ast.AsyncFunctionDef, ast.ClassDef)):
                for fld in ("body", "orelse"):
                    b = getattr(st, fld, None)
                    if isinstance(b, list) and b and isinstance(b[0], ast.stmt):
                        setattr(st, fld, replace(b, flag, ret))
            out.append(st)
        return out

    for fn in [n for n in ast.walk(tree) if isinstance(n, (ast.FunctionDef, ast.AsyncFunctionDef))]:
        warns = any(isinstance(c, ast.Call) and ast.unparse(c.func) in ("warnings.warn", "warn") for c in _walk_skip_nested(fn))
        if not warns:
            continue
        body = fn.body
        for i, st in enumerate(body):
            if isinstance(st, (ast.For, ast.While)) and not st.orelse:
                good, other = own_level_returns(st)
                if not good or other:
                    continue
                counter[0] += 1
                flag, ret = "_loopexit%d" % counter[0], "_loopret%d" % counter[0]
                st.body = replace(st.body, flag, ret)
                rest = body[i + 1:]
                init = ast.copy_location(ast.Assign(targets=[ast.Name(id=flag, ctx=ast.Store())], value=ast.Constant(value=False)), st)
                tail = []
                if rest:
                    tail.append(ast.copy_location(ast.If(test=ast.UnaryOp(op=ast.Not(), operand=ast.Name(id=flag, ctx=ast.Load())), body=rest, orelse=[]), rest[0]))
                last = rest[-1] if rest else st
                tail.append(ast.copy_location(ast.Return(value=ast.Name(id=ret, ctx=ast.Load())), last))
                fn.body = body[:i] + [init, st] + tail
                ast.fix_missing_locations(fn)
                break
    return tree


def _inplace_methods(tree):
    """`x.mul_(v)` / `x.add_(v)` / `x.sub_(v)` / `x.div_(v)` as a statement (one argument, no keywords) is `x *= v` etc. - both are the
    in-place operation on the same tensor"""
    ops = {"mul_": ast.Mult, "add_": ast.Add, "sub_": ast.Sub, "div_": ast.Div}

    class T(ast.NodeTransformer):
        def visit_Expr(self, node):
            c = node.value
            if isinstance(c, ast.Call) and isinstance(c.func, ast.Attribute) and c.func.attr in ops and len(c.args) == 1 and not c.keywords \
                    and isinstance(c.func.value, (ast.Name, ast.Attribute, ast.Subscript)) and not isinstance(c.args[0], ast.Starred):
                tgt = c.func.value
                tgt = ast.Name(id=tgt.id, ctx=ast.Store()) if isinstance(tgt, ast.Name) else tgt
                if not isinstance(tgt, ast.Name):
                    tgt.ctx = ast.Store()
                return ast.copy_location(ast.AugAssign(target=tgt, op=ops[c.func.attr](), value=c.args[0]), node)
            return node
    return T().visit(tree)


def _decorator_calls(tree):
    """`def g(..): ..` directly followed by `h = D(g)` (g mentioned nowhere else in the enclosing function) is the decorated definition
    `@D def h(..): ..` - the call form and the decorator form of wrapping a local function read the same."""
    for owner in ast.walk(tree):
        if not isinstance(owner, (ast.FunctionDef, ast.AsyncFunctionDef)):
            continue
        for blk_owner in ast.walk(owner):
            for fld in ("body", "orelse", "finalbody"):
                b = getattr(blk_owner, fld, None)
                if not (isinstance(b, list) and b and isinstance(b[0], ast.stmt)):
                    continue
                i = 0
                while i + 1 < len(b):
                    d, a = b[i], b[i + 1]
                    if isinstance(d, ast.FunctionDef) and isinstance(a, ast.Assign) and len(a.targets) == 1 and isinstance(a.targets[0], ast.Name) \
                            and isinstance(a.value, ast.Call) and len(a.value.args) == 1 and not a.value.keywords and isinstance(a.value.args[0], ast.Name) \
                            and a.value.args[0].id == d.name and not isinstance(a.value.func, ast.Name):
                        uses = [n for n in ast.walk(owner) if isinstance(n, ast.Name) and n.id == d.name]
                        inner = [n for n in ast.walk(d) if isinstance(n, ast.Name) and n.id == d.name]
                        hname = a.targets[0].id
                        clash = hname != d.name and any((isinstance(n, ast.Name) and n.id == hname and n is not a.targets[0]) for n in ast.walk(d))
                        if len(uses) == 1 and not inner and not clash:
                            d.decorator_list = [a.value.func] + list(d.decorator_list)
                            d.name = hname
                            del b[i + 1]
                            continue
                    i += 1
    return tree


def _specialise_on_flags(tree):
    """A function body that, from some statement on, tests the same local flag (a bare name that is not re-bound afterwards) more than
    once - `x = A if flag else B`, `if flag: ..`, `return P if flag else Q` - is the two-armed form
        if flag: <rest of the body with flag = True>  else: <rest of the body with flag = False>
    (tail duplication; evaluating a name has no effect, so this is behaviour preserving).  One `if flag: .. else: ..` with everything
    spelled out per arm and several small conditionals on the same flag then read the same."""
    import copy as _copy

    class Fold(ast.NodeTransformer):
        def __init__(self, name, value):
            self.name, self.value = name, value

        def _truth(self, t):
            if isinstance(t, ast.Name) and t.id == self.name:
                return self.value
            if isinstance(t, ast.UnaryOp) and isinstance(t.op, ast.Not) and isinstance(t.operand, ast.Name) and t.operand.id == self.name:
                return not self.value
            return None

        def visit_IfExp(self, node):
            self.generic_visit(node)
            tv = self._truth(node.test)
            return node if tv is None else (node.body if tv else node.orelse)

        def visit_If(self, node):
            self.generic_visit(node)
            tv = self._truth(node.test)
            if tv is None:
                return node
            return (node.body if tv else node.orelse) or [ast.copy_location(ast.Pass(), node)]

        def visit_FunctionDef(self, node):
            return node          # closures keep reading the variable

        def visit_Lambda(self, node):
            return node

    def tests_of(st, name):
        k = 0
        for n in _own_walk_nodes(st):
            t = n.test if isinstance(n, (ast.If, ast.IfExp)) else None
            if t is not None and ((isinstance(t, ast.Name) and t.id == name) or
                                  (isinstance(t, ast.UnaryOp) and isinstance(t.op, ast.Not) and isinstance(t.operand, ast.Name) and t.operand.id == name)):
                k += 1
        return k

    def _own_walk_nodes(st):
        stack = [st]
        while stack:
            n = stack.pop()
            yield n
            for ch in ast.iter_child_nodes(n):
                if not isinstance(ch, (ast.FunctionDef, ast.AsyncFunctionDef, ast.Lambda, ast.ClassDef)):
                    stack.append(ch)

    for fn in [n for n in ast.walk(tree) if isinstance(n, (ast.FunctionDef, ast.AsyncFunctionDef))]:
        body = fn.body
        done = False
        for i, st in enumerate(body):
            if done:
                break
            if isinstance(st, (ast.For, ast.While, ast.Try, ast.With, ast.FunctionDef, ast.ClassDef)):
                continue
            cands = set()
            for n in _own_walk_nodes(st):
                t = n.test if isinstance(n, (ast.If, ast.IfExp)) else None
                if isinstance(t, ast.UnaryOp) and isinstance(t.op, ast.Not):
                    t = t.operand
                if isinstance(t, ast.Name):
                    cands.add(t.id)
            for name in sorted(cands):
                tail = body[i:]
                if sum(tests_of(x, name) for x in tail) < 2:
                    continue
                # only the "merged branches" shape: the function's final statement is `return P if flag else Q`
                last = body[-1]
                if not (isinstance(last, ast.Return) and isinstance(last.value, ast.IfExp) and tests_of(ast.Expr(value=ast.IfExp(test=last.value.test, body=ast.Constant(0), orelse=ast.Constant(0))), name) == 1):
                    continue
                if any(isinstance(n, ast.Name) and n.id == name and isinstance(n.ctx, (ast.Store, ast.Del)) for x in tail for n in ast.walk(x)):
                    continue
                if any(isinstance(n, (ast.Nonlocal, ast.Global)) for n in ast.walk(fn)):
                    continue
                # the flag must be a plain local (assigned in this function or a parameter), and the tail small enough to duplicate
                if sum(1 for x in tail for _ in ast.walk(x)) > 1500:
                    continue
                # straight-line tails only: duplicating a loop would give the path rules two copies of one solver loop to reason about
                if any(isinstance(n, (ast.For, ast.While, ast.Try)) for x in tail for n in _own_walk_nodes(x)):
                    continue
                arms = []
                for val in (True, False):
                    arm = []
                    for x in tail:
                        r = Fold(name, val).visit(_copy.deepcopy(x))
                        arm.extend(r if isinstance(r, list) else [r])
                    arms.append(arm or [ast.Pass()])
                new_if = ast.copy_location(ast.If(test=ast.Name(id=name, ctx=ast.Load()), body=arms[0], orelse=arms[1]), st)
                fn.body = body[:i] + [new_if]
                ast.fix_missing_locations(fn)
                done = True
                break
    return tree


def normal_form(tree):
    """the load-time normal form of a module (see DESIGN 2.1b)"""
    tree = _decorator_calls(tree)
    tree = _specialise_on_flags(tree)
    tree = _strip_local_annotations(tree)
    tree = _inplace_methods(tree)
    tree = _unroll_constant_tables(tree)
    tree = _unpack_saved_tensors(_enumerate_ranges(_peel_iterators(tree)))
    tree = ast.fix_missing_locations(_split_tuple_assigns(_ExprCanon().visit(tree)))
    tree = _forelse_to_flag(tree)
    tree = _loop_returns_to_flag(tree)
    return _inline_return_temps(_flatten_terminating_ifs(_LoadNormaliser().visit(_sink_result_returns(tree))))


class Module:
    def __init__(self, path, relpath, modname, source):
        self.path = path
        self.relpath = relpath
        self.modname = modname
        self.source = source
        from . import alpha, inline
        tree0 = ast.parse(source, filename=path)
        ref_funcs = alpha.load_table().get(relpath.replace(os.sep, "/"))
        # helpers that the reference version of this module does not have are inlined back into their callers
        ref_locals = {q: (set(v.get("locals", [])) | {k.split(".")[-1] for k in ref_funcs if k.startswith(q + ".")}) for q, v in ref_funcs.items()} if ref_funcs else None
        # locals that were merely renamed get their reference names back first, so that the inliner's "new with respect to the reference"
        # test for local closures is not fooled by a consistent renaming (a second pass runs on the normal form below)
        self.alpha_pre = alpha.normalise(tree0, relpath) if ref_funcs else []
        self.inlined_helpers = inline.inline_new_helpers(tree0, set(ref_funcs), ref_locals) if ref_funcs else []
        self.tree = normal_form(tree0)
        self.alpha_renamed = alpha.normalise(self.tree, relpath)   # locals renamed back to their reference names
        self.functions: Dict[str, FuncInfo] = {}
        self.classes: Dict[str, ClassInfo] = {}
        self.imports: Dict[str, Tuple[str, Optional[str]]] = {}  # local -> (module, name|None)
        self.assigns: Dict[str, ast.AST] = {}                      # module-level NAME = value (last wins)
        self._index()

    def const(self, name: str, depth: int = 0):
        """module-level value bound to `name`, following plain aliases (`ivp_methods = _IVP_METHODS`)"""
        v = self.assigns.get(name)
        while isinstance(v, ast.Name) and v.id in self.assigns and depth < 5:
            v = self.assigns[v.id]
            depth += 1
        return v

    def _index(self):
        for n in ast.walk(self.tree):
            for ch in ast.iter_child_nodes(n):
                ch._parent = n  # type: ignore[attr-defined]
        self.tree._parent = None  # type: ignore[attr-defined]

        def visit(body, prefix, cls, parentfn):
            for s in body:
                if isinstance(s, (ast.FunctionDef, ast.AsyncFunctionDef)):
                    qn = prefix + s.name
                    fi = FuncInfo(s, qn, self, cls=cls if parentfn is None else None, parent=parentfn)
                    self.functions[qn] = fi
                    s._funcinfo = fi  # type: ignore[attr-defined]
                    if cls is not None and parentfn is None:
                        cls.methods[s.name] = fi
                    visit_nested(s, qn + ".", fi)
                elif isinstance(s, ast.ClassDef):
                    qn = prefix + s.name
                    ci = ClassInfo(s, qn, self)
                    self.classes[qn] = ci
                    visit(s.body, qn + ".", ci, None)
                elif isinstance(s, (ast.If, ast.Try, ast.With, ast.For, ast.While)):
                    for blk in _blocks(s):
                        visit(blk, prefix, cls, parentfn)

        def visit_nested(fn, prefix, parentfn):
            for n in _walk_skip_nested(fn):
                if isinstance(n, (ast.FunctionDef, ast.AsyncFunctionDef)):
                    qn = prefix + n.name
                    base = qn
                    k = 2
                    while qn in self.functions:   # same nested name defined twice (if/else branches)
                        qn = "%s#%d" % (base, k)
                        k += 1
                    fi = FuncInfo(n, qn, self, cls=None, parent=parentfn)
                    self.functions[qn] = fi
                    n._funcinfo = fi  # type: ignore[attr-defined]
                    visit_nested(n, qn + ".", fi)
                elif isinstance(n, ast.ClassDef):
                    qn = prefix + n.name
                    ci = ClassInfo(n, qn, self)
                    self.classes[qn] = ci
                    visit(n.body, qn + ".", ci, None)

        visit(self.tree.body, "", None, None)

        for s in ast.walk(self.tree):
            if isinstance(s, ast.Import):
                for a in s.names:
                    self.imports[a.asname or a.name.split(".")[0]] = (a.name if a.asname else a.name.split(".")[0], None)
            elif isinstance(s, ast.ImportFrom):
                mod = s.module or ""
                if s.level:
                    pkg = self.modname.split(".")
                    # for a module a.b.c, level 1 -> a.b
                    base = pkg[:len(pkg) - s.level] if not self.relpath.endswith("__init__.py") else pkg[:len(pkg) - s.level + 1]
                    mod = ".".join(base + ([mod] if mod else []))
                for a in s.names:
                    self.imports[a.asname or a.name] = (mod, a.name)
        for s in self.tree.body:
            if isinstance(s, ast.Assign):
                for t in s.targets:
                    if isinstance(t, ast.Name):
                        self.assigns[t.id] = s.value
            elif isinstance(s, ast.AnnAssign) and isinstance(s.target, ast.Name) and s.value is not None:
                self.assigns[s.target.id] = s.value


def _blocks(s):
    out = []
    for f in ("body", "orelse", "finalbody"):
        b = getattr(s, f, None)
        if b:
            out.append(b)
    for h in getattr(s, "handlers", []) or []:
        out.append(h.body)
    return out


def _walk_skip_nested(fn) -> Iterator[ast.AST]:
    """Walk the body of fn, yielding nested function/class nodes but not descending into them."""
    stack = list(reversed(list(ast.iter_child_nodes(fn))))
    while stack:
        n = stack.pop()
        yield n
        if isinstance(n, (ast.FunctionDef, ast.AsyncFunctionDef, ast.ClassDef, ast.Lambda)):
            continue
        stack.extend(reversed(list(ast.iter_child_nodes(n))))


def own_nodes(fn: ast.AST) -> Iterator[ast.AST]:
    """All nodes belonging to fn itself (not to nested defs/lambdas/classes); nested def nodes are
    yielded (as statements) but not entered."""
    return _walk_skip_nested(fn)


def all_nodes(fn: ast.AST) -> Iterator[ast.AST]:
    return ast.walk(fn)


def parent(node):
    return getattr(node, "_parent", None)


def ancestors(node) -> Iterator[ast.AST]:
    p = parent(node)
    while p is not None:
        yield p
        p = parent(p)


def enclosing_function(node) -> Optional[ast.AST]:
    for a in ancestors(node):
        if isinstance(a, (ast.FunctionDef, ast.AsyncFunctionDef, ast.Lambda)):
            return a
    return None


def path_conditions(node) -> List[Tuple[str, bool]]:
    """(positive test text, truth value) for every enclosing `if` / conditional expression of `node`:
    `x` inside the else-arm of `if M is None` and inside the body of `if M is not None` both give
    ("M is None", False)."""
    out = []
    child = node
    for a in ancestors(node):
        if isinstance(a, (ast.If, ast.IfExp)):
            body = a.body if isinstance(a.body, list) else [a.body]
            orelse = a.orelse if isinstance(a.orelse, list) else [a.orelse]
            arm = True if any(child is b for b in body) else (False if any(child is b for b in orelse) else None)
            if arm is not None:
                t, flipped = _positive(a.test)
                out.append((ast.unparse(t), arm != flipped))
        child = a
    return out


def effective_conditions(node) -> List[Tuple[str, bool]]:
    """path_conditions plus the negated tests of every earlier sibling guard that always leaves its block
    (`if c: ...; return` before the statement, in the statement's block or in any enclosing block): the conditions that
    certainly hold when `node` executes, whatever mix of guard clauses and if/else the source uses."""
    out = list(path_conditions(node))
    child = enclosing_stmt(node) if not isinstance(node, ast.stmt) else node
    while child is not None:
        par = parent(child)
        if par is None:
            break
        for fld in ("body", "orelse", "finalbody"):
            blk = getattr(par, fld, None)
            if isinstance(blk, list) and any(child is b for b in blk):
                for b in blk:
                    if b is child:
                        break
                    if isinstance(b, ast.If) and not b.orelse and _terminates(b.body):
                        t, flipped = _positive(b.test)
                        out.append((ast.unparse(t), flipped))       # the guard's test was false: t is `flipped`
        if isinstance(par, (ast.FunctionDef, ast.AsyncFunctionDef, ast.Lambda, ast.ClassDef, ast.Module)):
            break
        child = par
    return out


def cond_atoms(conds) -> List[Tuple[str, bool]]:
    """split (test text, polarity) conditions into atoms: a true conjunction gives its conjuncts, a false disjunction its disjuncts
    (negated), `not x` flips"""
    out: List[Tuple[str, bool]] = []

    def put(e, pol):
        if isinstance(e, ast.UnaryOp) and isinstance(e.op, ast.Not):
            put(e.operand, not pol)
        elif isinstance(e, ast.BoolOp) and ((isinstance(e.op, ast.And) and pol) or (isinstance(e.op, ast.Or) and not pol)):
            for v in e.values:
                put(v, pol)
        else:
            t, fl = _positive(e)
            out.append((ast.unparse(t), pol != fl))
    for text, pol in conds:
        put(ast.parse(text, mode="eval").body, pol)
    return out


def case_split(stmts, test: str):
    """Find, in a statement list, the `if` that decides `test` (either polarity, with an else arm or as a guard clause that leaves
    the block) and return (statements run when test holds, statements run when it does not, statements before, the if node) -
    each case being its arm followed by the rest of the block unless the arm always leaves.  None when no such `if` exists."""
    want, wflip = _positive(ast.parse(test, mode="eval").body)
    for i, s_ in enumerate(stmts):
        if isinstance(s_, ast.If):
            tt, fl = _positive(s_.test)
            if ast.unparse(tt) != ast.unparse(want):
                continue
            rest = list(stmts[i + 1:])
            arm_t, arm_f = (s_.orelse, s_.body) if fl else (s_.body, s_.orelse)      # arm where `tt` is true / false
            a = list(arm_t) + ([] if _terminates(arm_t) else rest)
            b = list(arm_f) + ([] if _terminates(arm_f) else rest)
            return ((b, a) if wflip else (a, b)) + (list(stmts[:i]), s_)
    return None


def guard_chain(stmts, start_pred=None):
    """A multi-way decision written as an if/elif/else chain, as a sequence of guard clauses that leave the block, or any mix:
    [(test, arm statements), ..., (None, default statements)].  Statements before the first `if` (or before the first `if`
    accepted by start_pred) are skipped."""
    out = []
    i = 0
    n = len(stmts)
    while i < n:
        s_ = stmts[i]
        if isinstance(s_, ast.If) and (out or start_pred is None or start_pred(s_)):
            node = s_
            while True:
                out.append((node.test, node.body))
                if len(node.orelse) == 1 and isinstance(node.orelse[0], ast.If):
                    node = node.orelse[0]
                    continue
                break
            if node.orelse:
                out.append((None, node.orelse))
                return out
            if _terminates(node.body):
                i += 1
                continue
            out.append((None, list(stmts[i + 1:])))
            return out
        if out:
            out.append((None, list(stmts[i:])))
            return out
        i += 1
    if out:
        out.append((None, []))
    return out


OTHER_MODE = "<any other value>"


def mode_paths(stmts, var: str, extra_values=()):
    """Case analysis of a statement list over the values of a string-valued selector `var`: for every string the code compares
    `var` with (and for `extra_values`, None and a value that matches nothing) the statements that run for that value and how the
    run ends ('raise' / 'return' / 'fall').  Tests are evaluated when they consist only of comparisons of `var` with string
    constants (==, !=, in, not in, is None, is not None, and / or / not); any other `if` is kept as an opaque statement.
    The result is the same for an if/elif/else chain, for guard clauses and for negated guards."""
    consts = set(extra_values)
    for s_ in stmts:
        for c in ast.walk(s_):
            if isinstance(c, ast.Compare) and isinstance(c.left, ast.Name) and c.left.id == var:
                for r in c.comparators:
                    if isinstance(r, ast.Constant) and isinstance(r.value, str):
                        consts.add(r.value)
                    elif isinstance(r, (ast.Tuple, ast.List, ast.Set)):
                        consts |= {e.value for e in r.elts if isinstance(e, ast.Constant) and isinstance(e.value, str)}

    class _Unknown(Exception):
        pass

    def ev(e, val):
        if isinstance(e, ast.BoolOp):
            vs = [ev(v, val) for v in e.values]
            return all(vs) if isinstance(e.op, ast.And) else any(vs)
        if isinstance(e, ast.UnaryOp) and isinstance(e.op, ast.Not):
            return not ev(e.operand, val)
        if isinstance(e, ast.Compare) and len(e.ops) == 1 and isinstance(e.left, ast.Name) and e.left.id == var:
            op, r = e.ops[0], e.comparators[0]
            if isinstance(r, ast.Constant) and (isinstance(r.value, str) or r.value is None):
                if isinstance(op, (ast.Eq, ast.Is)):
                    return val == r.value
                if isinstance(op, (ast.NotEq, ast.IsNot)):
                    return val != r.value
            if isinstance(r, (ast.Tuple, ast.List, ast.Set)) and isinstance(op, (ast.In, ast.NotIn)) and all(isinstance(x, ast.Constant) for x in r.elts):
                res = val in [x.value for x in r.elts]
                return res if isinstance(op, ast.In) else not res
        raise _Unknown()

    def run(block, val, out):
        for s_ in block:
            if isinstance(s_, ast.If):
                try:
                    t = ev(s_.test, val)
                except _Unknown:
                    out.append(s_)
                    continue
                end = run(s_.body if t else s_.orelse, val, out)
                if end != "fall":
                    return end
                continue
            out.append(s_)
            if isinstance(s_, ast.Raise):
                return "raise"
            if isinstance(s_, ast.Return):
                return "return"
        return "fall"
    res = {}
    for val in sorted(consts) + [None, OTHER_MODE]:
        out = []
        end = run(stmts, val, out)
        res[val] = (out, end)
    return res


def decision_steps(stmts):
    """A multi-way decision in load-time normal form (guards that leave the block, then a tail) as a flat list of steps:
         ("when", test, arm)      - `if test: arm` where the arm leaves by return / break / continue
         ("require", test, arm)   - `if not test: raise ..`: everything after it runs only when `test` holds (arm = the raising arm)
         ("do", None, [stmt])     - any other statement of the block, in order
    An if/elif/else chain that was not flattened (arms that do not leave) is expanded the same way: each arm is a "when",
    its else arm follows as further steps."""
    out = []

    def walk(block):
        for s_ in block:
            if isinstance(s_, ast.If):
                leaves = _terminates(s_.body)
                if leaves and not s_.orelse and isinstance(s_.body[-1], ast.Raise):
                    out.append(("require", _negated(s_.test), s_.body))
                    continue
                if leaves or s_.orelse:
                    out.append(("when", s_.test, s_.body))
                    walk(s_.orelse)
                    continue
            out.append(("do", None, [s_]))
    walk(stmts)
    return out


def under(node, test: str, value: bool = True) -> bool:
    """is `node` on the arm where `test` (positive or negative spelling) has truth `value`?"""
    t, flipped = _positive(ast.parse(test, mode="eval").body)
    return (ast.unparse(t), value != flipped) in effective_conditions(node)


def enclosing_stmt(node) -> ast.AST:
    n = node
    while n is not None and not isinstance(n, ast.stmt):
        n = parent(n)
    return n


class Model:
    def __init__(self, repo: str = "/repo", package: str = "xitorch"):
        self.repo = os.path.abspath(repo)
        self.package = package
        self.modules: Dict[str, Module] = {}       # by relpath
        self.by_modname: Dict[str, Module] = {}
        self._load()
        self._resolve_bases()

    def _load(self):
        root = os.path.join(self.repo, self.package)
        if not os.path.isdir(root):
            raise AnchorError("package directory %s not found" % root)
        for dirpath, dirnames, filenames in os.walk(root):
            dirnames[:] = sorted(d for d in dirnames if d not in ("_tests", "__pycache__"))
            for fn in sorted(filenames):
                if not fn.endswith(".py"):
                    continue
                path = os.path.join(dirpath, fn)
                rel = os.path.relpath(path, self.repo)
                modname = rel[:-3].replace(os.sep, ".")
                if modname.endswith(".__init__"):
                    modname = modname[:-9]
                try:
                    with open(path, encoding="utf-8") as f:
                        src = f.read()
                    m = Module(path, rel, modname, src)
                except SyntaxError as e:
                    raise AnalysisError("cannot parse %s: %s" % (rel, e))
                self.modules[rel] = m
                self.by_modname[modname] = m

    # ------------------------------------------------------------------ lookups
    def module(self, relpath: str) -> Module:
        if relpath not in self.modules:
            raise AnchorError("anchor module vanished: %s" % relpath)
        return self.modules[relpath]

    def func(self, relpath: str, qualname: str) -> FuncInfo:
        m = self.module(relpath)
        if qualname not in m.functions:
            raise AnchorError("anchor function vanished: %s::%s" % (relpath, qualname))
        return m.functions[qualname]

    def flat_func(self, relpath: str, qualname: str) -> FuncInfo:
        """A method with every call of a private method of its own class (`self.__helper(..)`, `self._helper(..)`) inlined - on the
        analysed copy only - whether or not the helper exists in the reference tree.  Rules that reason about *what a method does on a
        path* use this view, so that moving statements between a method and its private helpers (in either direction) does not change
        what they see.  Helpers that cannot be inlined value-preservingly stay calls."""
        fi = self.func(relpath, qualname)
        key = (relpath, qualname)
        cache = self.__dict__.setdefault("_flat_cache", {})
        if key in cache:
            return cache[key]
        if fi.cls is None:
            cache[key] = fi
            return fi
        import copy as _copy
        from . import inline
        cnode = _copy.deepcopy(fi.cls.node)
        for n in ast.walk(cnode):
            for a_ in ("_parent", "_funcinfo"):
                if hasattr(n, a_):
                    try:
                        delattr(n, a_)
                    except AttributeError:
                        pass
        tree = ast.Module(body=[cnode], type_ignores=[])
        private = {m_.name for m_ in cnode.body if isinstance(m_, (ast.FunctionDef, ast.AsyncFunctionDef)) and m_.name.startswith("_")
                   and not (m_.name.startswith("__") and m_.name.endswith("__")) and m_.name != fi.name
                   and not any(ast.unparse(d).split(".")[-1] in ("property", "abstractmethod", "contextmanager", "setter") for d in m_.decorator_list)}
        # `known` = everything that must NOT be inlined
        known = {"%s.%s" % (cnode.name, m_.name) for m_ in cnode.body if isinstance(m_, (ast.FunctionDef, ast.AsyncFunctionDef)) and m_.name not in private}
        inl = inline.Inliner(tree, known)
        inl.run()
        ast.fix_missing_locations(tree)
        tree = normal_form(tree)
        target = next((m_ for m_ in tree.body[0].body if isinstance(m_, (ast.FunctionDef, ast.AsyncFunctionDef)) and m_.name == fi.name), None)
        if target is None:
            cache[key] = fi
            return fi
        for n in ast.walk(target):
            for ch in ast.iter_child_nodes(n):
                ch._parent = n
        target._parent = None
        out = FuncInfo(target, fi.qualname, fi.module, cls=fi.cls, parent=None)
        out.flattened = sorted({h for _c, h in inl.inlined})
        cache[key] = out
        return out

    def cls(self, relpath: str, qualname: str) -> ClassInfo:
        m = self.module(relpath)
        if qualname not in m.classes:
            raise AnchorError("anchor class vanished: %s::%s" % (relpath, qualname))
        return m.classes[qualname]

    def all_functions(self) -> Iterator[FuncInfo]:
        for m in self.modules.values():
            yield from m.functions.values()

    def all_classes(self) -> Iterator[ClassInfo]:
        for m in self.modules.values():
            yield from m.classes.values()

    def stats(self):
        return dict(modules=len(self.modules),
                    classes=sum(len(m.classes) for m in self.modules.values()),
                    functions=sum(len(m.functions) for m in self.modules.values()))

    # ------------------------------------------------------------------ resolution
    def resolve_global(self, module: Module, name: str, depth: int = 0):
        """Resolve a module-level name to ('func', FuncInfo) | ('class', ClassInfo) |
        ('assign', Module, ast expr) | ('module', Module) | ('external', 'mod.name') | None."""
        if depth > 8:
            return None
        if name in module.functions:
            return ("func", module.functions[name])
        if name in module.classes:
            return ("class", module.classes[name])
        if name in module.imports:
            mod, nm = module.imports[name]
            if nm is None:
                tgt = self.by_modname.get(mod)
                return ("module", tgt) if tgt else ("external", mod)
            tgt = self.by_modname.get(mod)
            if tgt is None:
                # maybe "from pkg import submodule"
                sub = self.by_modname.get(mod + "." + nm)
                if sub is not None:
                    return ("module", sub)
                return ("external", mod + "." + nm)
            r = self.resolve_global(tgt, nm, depth + 1)
            if r is None:
                sub = self.by_modname.get(mod + "." + nm)
                if sub is not None:
                    return ("module", sub)
            return r
        if name in module.assigns:
            return ("assign", module, module.assigns[name])
        return None

    def resolve_expr(self, module: Module, expr: ast.AST):
        """Resolve Name / dotted Attribute rooted at a module-level name."""
        if isinstance(expr, ast.Name):
            return self.resolve_global(module, expr.id)
        if isinstance(expr, ast.Attribute):
            base = self.resolve_expr(module, expr.value)
            if base is None:
                return None
            if base[0] == "module" and base[1] is not None:
                return self.resolve_global(base[1], expr.attr)
            if base[0] == "class":
                m = base[1].find_method(expr.attr)
                if m is not None:
                    return ("func", m)
                ca = base[1].class_assigns()
                if expr.attr in ca:
                    return ("assign", base[1].module, ca[expr.attr])
                return None
            if base[0] == "external":
                return ("external", base[1] + "." + expr.attr)
        return None

    def _resolve_bases(self):
        for c in self.all_classes():
            for b in c.node.bases:
                r = self.resolve_expr(c.module, b)
                if r and r[0] == "class":
                    c.bases.append(r[1])

    def classes_deriving(self, basename: str) -> List[ClassInfo]:
        return [c for c in self.all_classes() if c.derives_from(basename)]

    def functions_named(self, name: str) -> List[FuncInfo]:
        return [f for f in self.all_functions() if f.name == name]

    def digest(self) -> str:
        import hashlib
        h = hashlib.sha256()
        for rel in sorted(self.modules):
            h.update(rel.encode())
            h.update(self.modules[rel].source.encode())
        return h.hexdigest()[:16]


# ---------------------------------------------------------------------------------------------- canonical text
_TORCH_UNARY = {"sqrt", "abs", "exp", "log", "sin", "cos", "tan", "atan", "conj", "clone", "detach", "sum", "max", "min", "norm", "clamp", "clip",
                "transpose", "reshape", "unsqueeze", "squeeze", "matmul", "any", "all", "isinf", "numel", "zeros_like", "ones_like", "flip"}


class _Canon(ast.NodeTransformer):
    """Normalise spellings that do not change meaning, so that a shape rule compares meaning rather than text:
    `x.f(args)` -> `torch.f(x, args)` for the tensor functions the package uses, `0.0` -> `0`, `x.shape[-1]` kept,
    keyword arguments sorted, `not a is b` -> `a is not b`, `a == None` kept (never used)."""

    def visit_Call(self, node: ast.Call):
        self.generic_visit(node)
        f = node.func
        if isinstance(f, ast.Attribute) and f.attr in _TORCH_UNARY and not (isinstance(f.value, ast.Name) and f.value.id in ("torch", "np", "math", "warnings", "copy")):
            node = ast.Call(func=ast.Attribute(value=ast.Name(id="torch", ctx=ast.Load()), attr=f.attr, ctx=ast.Load()),
                            args=[f.value] + list(node.args), keywords=list(node.keywords))
        node.keywords = sorted(node.keywords, key=lambda k: (k.arg is None, k.arg or ""))
        return node

    def visit_Constant(self, node: ast.Constant):
        if isinstance(node.value, float) and node.value == int(node.value) and abs(node.value) < 1e6:
            return ast.Constant(value=int(node.value))
        return node

    def visit_UnaryOp(self, node: ast.UnaryOp):
        self.generic_visit(node)
        if isinstance(node.op, ast.Not) and isinstance(node.operand, ast.Compare) and len(node.operand.ops) == 1:
            flip = {ast.Is: ast.IsNot, ast.IsNot: ast.Is, ast.In: ast.NotIn, ast.NotIn: ast.In, ast.Eq: ast.NotEq, ast.NotEq: ast.Eq}
            op = type(node.operand.ops[0])
            if op in flip:
                return ast.Compare(left=node.operand.left, ops=[flip[op]()], comparators=node.operand.comparators)
        return node


def canon(node_or_text) -> str:
    """canonical text of a node (or of a pattern given as source text)"""
    import copy
    if isinstance(node_or_text, str):
        try:
            tree = ast.parse(node_or_text)
        except SyntaxError:
            return " ".join(node_or_text.split())
        out = ast.unparse(ast.fix_missing_locations(_Canon().visit(tree)))
        return out
    tree = copy.deepcopy(node_or_text)
    return ast.unparse(ast.fix_missing_locations(_Canon().visit(tree)))


def has_form(node: ast.AST, *patterns: str) -> bool:
    """every pattern (source text of statements / expressions) occurs in the canonical text of node"""
    def flat(t):
        return "\n".join(ln.strip() for ln in t.splitlines())
    src = flat(canon(node))
    return all(flat(canon(p)) in src for p in patterns)
