"""Source model of /repo/xitorch: parsed modules, symbol table, name resolution.

Nothing here imports or executes xitorch: everything is derived from `ast`.
"""
from __future__ import annotations
import ast
import os
from typing import Dict, List, Optional, Tuple, Iterator


class AnalysisError(Exception):
    """The checker cannot decide (vanished anchor, unsupported construct, ...). Exit code 2."""


class AnchorError(AnalysisError):
    pass


def norm_stmt(node: ast.AST, maxlen: int = 160) -> str:
    """Normalised text of a statement/expression: `ast.unparse` (formatting, comments and line
    numbers do not matter), first logical line for compound statements."""
    if isinstance(node, (ast.If, ast.While)):
        txt = ("if " if isinstance(node, ast.If) else "while ") + ast.unparse(node.test)
    elif isinstance(node, ast.For):
        txt = "for %s in %s" % (ast.unparse(node.target), ast.unparse(node.iter))
    elif isinstance(node, (ast.With,)):
        txt = "with " + ", ".join(ast.unparse(i) for i in node.items)
    elif isinstance(node, ast.Try):
        txt = "try"
    elif isinstance(node, (ast.FunctionDef, ast.AsyncFunctionDef)):
        txt = "def %s(%s)" % (node.name, ast.unparse(node.args))
    elif isinstance(node, ast.ClassDef):
        txt = "class " + node.name
    elif isinstance(node, ast.ExceptHandler):
        txt = "except " + (ast.unparse(node.type) if node.type else "")
    else:
        txt = ast.unparse(node)
    txt = " ".join(txt.split())
    return txt if len(txt) <= maxlen else txt[:maxlen - 3] + "..."


class FuncInfo:
    def __init__(self, node, qualname, module, cls=None, parent=None):
        self.node: ast.FunctionDef = node
        self.qualname: str = qualname          # e.g. "Class.method" or "func.inner"
        self.module: "Module" = module
        self.cls: Optional["ClassInfo"] = cls    # class that lexically owns the function (methods only)
        self.parent: Optional["FuncInfo"] = parent  # lexically enclosing function

    @property
    def name(self):
        return self.node.name

    @property
    def fq(self):
        return "%s::%s" % (self.module.relpath, self.qualname)

    @property
    def lineno(self):
        return self.node.lineno

    def params(self) -> List[str]:
        a = self.node.args
        return [x.arg for x in a.posonlyargs + a.args]

    def kwonly(self) -> List[str]:
        return [x.arg for x in self.node.args.kwonlyargs]

    def all_params(self) -> List[str]:
        a = self.node.args
        res = self.params() + self.kwonly()
        return res

    def vararg(self) -> Optional[str]:
        return self.node.args.vararg.arg if self.node.args.vararg else None

    def kwarg(self) -> Optional[str]:
        return self.node.args.kwarg.arg if self.node.args.kwarg else None

    def decorators(self) -> List[str]:
        return [ast.unparse(d) for d in self.node.decorator_list]

    def __repr__(self):
        return "<Func %s>" % self.fq


class ClassInfo:
    def __init__(self, node, qualname, module):
        self.node: ast.ClassDef = node
        self.qualname = qualname
        self.module: "Module" = module
        self.methods: Dict[str, FuncInfo] = {}
        self.base_exprs: List[str] = [ast.unparse(b) for b in node.bases]
        self.bases: List["ClassInfo"] = []     # resolved in-package bases

    @property
    def name(self):
        return self.node.name

    @property
    def fq(self):
        return "%s::%s" % (self.module.relpath, self.qualname)

    def mro(self) -> List["ClassInfo"]:
        """Linearised (depth-first, left-to-right, duplicates removed keeping last) in-package MRO."""
        out: List[ClassInfo] = []

        def visit(c):
            out.append(c)
            for b in c.bases:
                visit(b)
        visit(self)
        seen = set()
        res = []
        for c in reversed(out):
            if id(c) not in seen:
                seen.add(id(c))
                res.append(c)
        res.reverse()
        return res

    def find_method(self, name) -> Optional[FuncInfo]:
        for c in self.mro():
            if name in c.methods:
                return c.methods[name]
        return None

    def derives_from(self, basename: str) -> bool:
        """basename matches the last component of a base expression anywhere in the hierarchy"""
        for c in self.mro():
            for b in c.base_exprs:
                if b == basename or b.endswith("." + basename):
                    return True
            if c is not self and c.name == basename:
                return True
        return False

    def class_assigns(self) -> Dict[str, ast.AST]:
        res = {}
        for s in self.node.body:
            if isinstance(s, ast.Assign):
                for t in s.targets:
                    if isinstance(t, ast.Name):
                        res[t.id] = s.value
            elif isinstance(s, ast.AnnAssign) and isinstance(s.target, ast.Name) and s.value is not None:
                res[s.target.id] = s.value
        return res

    def __repr__(self):
        return "<Class %s>" % self.fq


_NEG_OPS = {ast.NotEq: ast.Eq, ast.IsNot: ast.Is, ast.NotIn: ast.In}


def _positive(test):
    """(test', flipped): the test with one outer negation removed (`not X`, `a != b`, `a is not b`,
    `a not in b`)."""
    if isinstance(test, ast.UnaryOp) and isinstance(test.op, ast.Not):
        return test.operand, True
    if isinstance(test, ast.Compare) and len(test.ops) == 1 and type(test.ops[0]) in _NEG_OPS:
        new = ast.Compare(left=test.left, ops=[_NEG_OPS[type(test.ops[0])]()], comparators=test.comparators)
        return ast.copy_location(new, test), True
    return test, False


class _LoadNormaliser(ast.NodeTransformer):
    """Behaviour-preserving normal form applied to every module when it is loaded, so that no rule depends on
    which of several equivalent spellings the source uses:
      * `pass` statements are dropped from bodies that have another statement;
      * a two-armed `if` / conditional expression (not an `elif` chain) has a positive test: `if not c: A else: B`,
        `if a != b`, `if a is not b`, `if a not in b` become the swapped form with the positive test.
    Positions are those of the original nodes."""

    def _body(self, stmts):
        keep = [s for s in stmts if not isinstance(s, ast.Pass)]
        return keep if keep else stmts[:1]

    def generic_visit(self, node):
        super().generic_visit(node)
        for fld in ("body", "orelse", "finalbody"):
            v = getattr(node, fld, None)
            if isinstance(v, list) and v and isinstance(v[0], ast.stmt):
                setattr(node, fld, self._body(v))
        return node

    def visit_If(self, node):
        self.generic_visit(node)
        if node.orelse and not (len(node.orelse) == 1 and isinstance(node.orelse[0], ast.If)):
            t, flipped = _positive(node.test)
            if flipped:
                node.test, node.body, node.orelse = t, node.orelse, node.body
        return node

    def visit_IfExp(self, node):
        self.generic_visit(node)
        t, flipped = _positive(node.test)
        if flipped:
            node.test, node.body, node.orelse = t, node.orelse, node.body
        return node


class Module:
    def __init__(self, path, relpath, modname, source):
        self.path = path
        self.relpath = relpath
        self.modname = modname
        self.source = source
        self.tree = _LoadNormaliser().visit(ast.parse(source, filename=path))
        from . import alpha
        self.alpha_renamed = alpha.normalise(self.tree, relpath)   # locals renamed back to their reference names
        self.functions: Dict[str, FuncInfo] = {}
        self.classes: Dict[str, ClassInfo] = {}
        self.imports: Dict[str, Tuple[str, Optional[str]]] = {}  # local -> (module, name|None)
        self.assigns: Dict[str, ast.AST] = {}                      # module-level NAME = value (last wins)
        self._index()

    def _index(self):
        for n in ast.walk(self.tree):
            for ch in ast.iter_child_nodes(n):
                ch._parent = n  # type: ignore[attr-defined]
        self.tree._parent = None  # type: ignore[attr-defined]

        def visit(body, prefix, cls, parentfn):
            for s in body:
                if isinstance(s, (ast.FunctionDef, ast.AsyncFunctionDef)):
                    qn = prefix + s.name
                    fi = FuncInfo(s, qn, self, cls=cls if parentfn is None else None, parent=parentfn)
                    self.functions[qn] = fi
                    s._funcinfo = fi  # type: ignore[attr-defined]
                    if cls is not None and parentfn is None:
                        cls.methods[s.name] = fi
                    visit_nested(s, qn + ".", fi)
                elif isinstance(s, ast.ClassDef):
                    qn = prefix + s.name
                    ci = ClassInfo(s, qn, self)
                    self.classes[qn] = ci
                    visit(s.body, qn + ".", ci, None)
                elif isinstance(s, (ast.If, ast.Try, ast.With, ast.For, ast.While)):
                    for blk in _blocks(s):
                        visit(blk, prefix, cls, parentfn)

        def visit_nested(fn, prefix, parentfn):
            for n in _walk_skip_nested(fn):
                if isinstance(n, (ast.FunctionDef, ast.AsyncFunctionDef)):
                    qn = prefix + n.name
                    base = qn
                    k = 2
                    while qn in self.functions:   # same nested name defined twice (if/else branches)
                        qn = "%s#%d" % (base, k)
                        k += 1
                    fi = FuncInfo(n, qn, self, cls=None, parent=parentfn)
                    self.functions[qn] = fi
                    n._funcinfo = fi  # type: ignore[attr-defined]
                    visit_nested(n, qn + ".", fi)
                elif isinstance(n, ast.ClassDef):
                    qn = prefix + n.name
                    ci = ClassInfo(n, qn, self)
                    self.classes[qn] = ci
                    visit(n.body, qn + ".", ci, None)

        visit(self.tree.body, "", None, None)

        for s in ast.walk(self.tree):
            if isinstance(s, ast.Import):
                for a in s.names:
                    self.imports[a.asname or a.name.split(".")[0]] = (a.name if a.asname else a.name.split(".")[0], None)
            elif isinstance(s, ast.ImportFrom):
                mod = s.module or ""
                if s.level:
                    pkg = self.modname.split(".")
                    # for a module a.b.c, level 1 -> a.b
                    base = pkg[:len(pkg) - s.level] if not self.relpath.endswith("__init__.py") else pkg[:len(pkg) - s.level + 1]
                    mod = ".".join(base + ([mod] if mod else []))
                for a in s.names:
                    self.imports[a.asname or a.name] = (mod, a.name)
        for s in self.tree.body:
            if isinstance(s, ast.Assign):
                for t in s.targets:
                    if isinstance(t, ast.Name):
                        self.assigns[t.id] = s.value
            elif isinstance(s, ast.AnnAssign) and isinstance(s.target, ast.Name) and s.value is not None:
                self.assigns[s.target.id] = s.value


def _blocks(s):
    out = []
    for f in ("body", "orelse", "finalbody"):
        b = getattr(s, f, None)
        if b:
            out.append(b)
    for h in getattr(s, "handlers", []) or []:
        out.append(h.body)
    return out


def _walk_skip_nested(fn) -> Iterator[ast.AST]:
    """Walk the body of fn, yielding nested function/class nodes but not descending into them."""
    stack = list(reversed(list(ast.iter_child_nodes(fn))))
    while stack:
        n = stack.pop()
        yield n
        if isinstance(n, (ast.FunctionDef, ast.AsyncFunctionDef, ast.ClassDef, ast.Lambda)):
            continue
        stack.extend(reversed(list(ast.iter_child_nodes(n))))


def own_nodes(fn: ast.AST) -> Iterator[ast.AST]:
    """All nodes belonging to fn itself (not to nested defs/lambdas/classes); nested def nodes are
    yielded (as statements) but not entered."""
    return _walk_skip_nested(fn)


def all_nodes(fn: ast.AST) -> Iterator[ast.AST]:
    return ast.walk(fn)


def parent(node):
    return getattr(node, "_parent", None)


def ancestors(node) -> Iterator[ast.AST]:
    p = parent(node)
    while p is not None:
        yield p
        p = parent(p)


def enclosing_function(node) -> Optional[ast.AST]:
    for a in ancestors(node):
        if isinstance(a, (ast.FunctionDef, ast.AsyncFunctionDef, ast.Lambda)):
            return a
    return None


def path_conditions(node) -> List[Tuple[str, bool]]:
    """(positive test text, truth value) for every enclosing `if` / conditional expression of `node`:
    `x` inside the else-arm of `if M is None` and inside the body of `if M is not None` both give
    ("M is None", False)."""
    out = []
    child = node
    for a in ancestors(node):
        if isinstance(a, (ast.If, ast.IfExp)):
            body = a.body if isinstance(a.body, list) else [a.body]
            orelse = a.orelse if isinstance(a.orelse, list) else [a.orelse]
            arm = True if any(child is b for b in body) else (False if any(child is b for b in orelse) else None)
            if arm is not None:
                t, flipped = _positive(a.test)
                out.append((ast.unparse(t), arm != flipped))
        child = a
    return out


def under(node, test: str, value: bool = True) -> bool:
    """is `node` on the arm where `test` (positive or negative spelling) has truth `value`?"""
    t, flipped = _positive(ast.parse(test, mode="eval").body)
    return (ast.unparse(t), value != flipped) in path_conditions(node)


def enclosing_stmt(node) -> ast.AST:
    n = node
    while n is not None and not isinstance(n, ast.stmt):
        n = parent(n)
    return n


class Model:
    def __init__(self, repo: str = "/repo", package: str = "xitorch"):
        self.repo = os.path.abspath(repo)
        self.package = package
        self.modules: Dict[str, Module] = {}       # by relpath
        self.by_modname: Dict[str, Module] = {}
        self._load()
        self._resolve_bases()

    def _load(self):
        root = os.path.join(self.repo, self.package)
        if not os.path.isdir(root):
            raise AnchorError("package directory %s not found" % root)
        for dirpath, dirnames, filenames in os.walk(root):
            dirnames[:] = sorted(d for d in dirnames if d not in ("_tests", "__pycache__"))
            for fn in sorted(filenames):
                if not fn.endswith(".py"):
                    continue
                path = os.path.join(dirpath, fn)
                rel = os.path.relpath(path, self.repo)
                modname = rel[:-3].replace(os.sep, ".")
                if modname.endswith(".__init__"):
                    modname = modname[:-9]
                try:
                    with open(path, encoding="utf-8") as f:
                        src = f.read()
                    m = Module(path, rel, modname, src)
                except SyntaxError as e:
                    raise AnalysisError("cannot parse %s: %s" % (rel, e))
                self.modules[rel] = m
                self.by_modname[modname] = m

    # ------------------------------------------------------------------ lookups
    def module(self, relpath: str) -> Module:
        if relpath not in self.modules:
            raise AnchorError("anchor module vanished: %s" % relpath)
        return self.modules[relpath]

    def func(self, relpath: str, qualname: str) -> FuncInfo:
        m = self.module(relpath)
        if qualname not in m.functions:
            raise AnchorError("anchor function vanished: %s::%s" % (relpath, qualname))
        return m.functions[qualname]

    def cls(self, relpath: str, qualname: str) -> ClassInfo:
        m = self.module(relpath)
        if qualname not in m.classes:
            raise AnchorError("anchor class vanished: %s::%s" % (relpath, qualname))
        return m.classes[qualname]

    def all_functions(self) -> Iterator[FuncInfo]:
        for m in self.modules.values():
            yield from m.functions.values()

    def all_classes(self) -> Iterator[ClassInfo]:
        for m in self.modules.values():
            yield from m.classes.values()

    def stats(self):
        return dict(modules=len(self.modules),
                    classes=sum(len(m.classes) for m in self.modules.values()),
                    functions=sum(len(m.functions) for m in self.modules.values()))

    # ------------------------------------------------------------------ resolution
    def resolve_global(self, module: Module, name: str, depth: int = 0):
        """Resolve a module-level name to ('func', FuncInfo) | ('class', ClassInfo) |
        ('assign', Module, ast expr) | ('module', Module) | ('external', 'mod.name') | None."""
        if depth > 8:
            return None
        if name in module.functions:
            return ("func", module.functions[name])
        if name in module.classes:
            return ("class", module.classes[name])
        if name in module.imports:
            mod, nm = module.imports[name]
            if nm is None:
                tgt = self.by_modname.get(mod)
                return ("module", tgt) if tgt else ("external", mod)
            tgt = self.by_modname.get(mod)
            if tgt is None:
                # maybe "from pkg import submodule"
                sub = self.by_modname.get(mod + "." + nm)
                if sub is not None:
                    return ("module", sub)
                return ("external", mod + "." + nm)
            r = self.resolve_global(tgt, nm, depth + 1)
            if r is None:
                sub = self.by_modname.get(mod + "." + nm)
                if sub is not None:
                    return ("module", sub)
            return r
        if name in module.assigns:
            return ("assign", module, module.assigns[name])
        return None

    def resolve_expr(self, module: Module, expr: ast.AST):
        """Resolve Name / dotted Attribute rooted at a module-level name."""
        if isinstance(expr, ast.Name):
            return self.resolve_global(module, expr.id)
        if isinstance(expr, ast.Attribute):
            base = self.resolve_expr(module, expr.value)
            if base is None:
                return None
            if base[0] == "module" and base[1] is not None:
                return self.resolve_global(base[1], expr.attr)
            if base[0] == "class":
                m = base[1].find_method(expr.attr)
                if m is not None:
                    return ("func", m)
                ca = base[1].class_assigns()
                if expr.attr in ca:
                    return ("assign", base[1].module, ca[expr.attr])
                return None
            if base[0] == "external":
                return ("external", base[1] + "." + expr.attr)
        return None

    def _resolve_bases(self):
        for c in self.all_classes():
            for b in c.node.bases:
                r = self.resolve_expr(c.module, b)
                if r and r[0] == "class":
                    c.bases.append(r[1])

    def classes_deriving(self, basename: str) -> List[ClassInfo]:
        return [c for c in self.all_classes() if c.derives_from(basename)]

    def functions_named(self, name: str) -> List[FuncInfo]:
        return [f for f in self.all_functions() if f.name == name]

    def digest(self) -> str:
        import hashlib
        h = hashlib.sha256()
        for rel in sorted(self.modules):
            h.update(rel.encode())
            h.update(self.modules[rel].source.encode())
        return h.hexdigest()[:16]


# ---------------------------------------------------------------------------------------------- canonical text
_TORCH_UNARY = {"sqrt", "abs", "exp", "log", "sin", "cos", "tan", "atan", "conj", "clone", "detach", "sum", "max", "min", "norm", "clamp", "clip",
                "transpose", "reshape", "unsqueeze", "squeeze", "matmul", "any", "all", "isinf", "numel", "zeros_like", "ones_like", "flip"}


class _Canon(ast.NodeTransformer):
    """Normalise spellings that do not change meaning, so that a shape rule compares meaning rather than text:
    `x.f(args)` -> `torch.f(x, args)` for the tensor functions the package uses, `0.0` -> `0`, `x.shape[-1]` kept,
    keyword arguments sorted, `not a is b` -> `a is not b`, `a == None` kept (never used)."""

    def visit_Call(self, node: ast.Call):
        self.generic_visit(node)
        f = node.func
        if isinstance(f, ast.Attribute) and f.attr in _TORCH_UNARY and not (isinstance(f.value, ast.Name) and f.value.id in ("torch", "np", "math", "warnings", "copy")):
            node = ast.Call(func=ast.Attribute(value=ast.Name(id="torch", ctx=ast.Load()), attr=f.attr, ctx=ast.Load()),
                            args=[f.value] + list(node.args), keywords=list(node.keywords))
        node.keywords = sorted(node.keywords, key=lambda k: (k.arg is None, k.arg or ""))
        return node

    def visit_Constant(self, node: ast.Constant):
        if isinstance(node.value, float) and node.value == int(node.value) and abs(node.value) < 1e6:
            return ast.Constant(value=int(node.value))
        return node

    def visit_UnaryOp(self, node: ast.UnaryOp):
        self.generic_visit(node)
        if isinstance(node.op, ast.Not) and isinstance(node.operand, ast.Compare) and len(node.operand.ops) == 1:
            flip = {ast.Is: ast.IsNot, ast.IsNot: ast.Is, ast.In: ast.NotIn, ast.NotIn: ast.In, ast.Eq: ast.NotEq, ast.NotEq: ast.Eq}
            op = type(node.operand.ops[0])
            if op in flip:
                return ast.Compare(left=node.operand.left, ops=[flip[op]()], comparators=node.operand.comparators)
        return node


def canon(node_or_text) -> str:
    """canonical text of a node (or of a pattern given as source text)"""
    import copy
    if isinstance(node_or_text, str):
        try:
            tree = ast.parse(node_or_text)
        except SyntaxError:
            return " ".join(node_or_text.split())
        out = ast.unparse(ast.fix_missing_locations(_Canon().visit(tree)))
        return out
    tree = copy.deepcopy(node_or_text)
    return ast.unparse(ast.fix_missing_locations(_Canon().visit(tree)))


def has_form(node: ast.AST, *patterns: str) -> bool:
    """every pattern (source text of statements / expressions) occurs in the canonical text of node"""
    def flat(t):
        return "\n".join(ln.strip() for ln in t.splitlines())
    src = flat(canon(node))
    return all(flat(canon(p)) in src for p in patterns)
