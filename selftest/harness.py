"""Mutation self-validation: apply one change to a scratch copy of the current tree and require the
property's check to fire (exit 1) naming the expected rule.  The scratch copy lives in a fresh temporary
directory outside /repo and /verif and is removed in a `finally`."""
from __future__ import annotations
import json
import os
import shutil
import subprocess
import sys
import tempfile
from concurrent.futures import ProcessPoolExecutor

HERE = os.path.dirname(os.path.abspath(__file__))
VERIF = os.path.dirname(HERE)
PY = sys.executable


def make_scratch(repo: str) -> str:
    d = tempfile.mkdtemp(prefix="xv-selftest-")
    shutil.copytree(os.path.join(repo, "xitorch"), os.path.join(d, "xitorch"),
                    ignore=shutil.ignore_patterns("__pycache__", "*.pyc"))
    return d


def apply_replace(root: str, relfile: str, old: str, new: str, count: int = 1) -> bool:
    p = os.path.join(root, relfile)
    if not os.path.exists(p):
        return False
    with open(p, encoding="utf-8", newline=None) as f:   # universal newlines
        src = f.read()
    if src.count(old) != count:
        return False
    with open(p, "w", encoding="utf-8", newline="\n") as f:
        f.write(src.replace(old, new))
    return True


def apply_patch(root: str, patchfile: str) -> bool:
    # normalise line endings of the target files first so that the patch context matches either style
    r = subprocess.run(["patch", "-p1", "--binary", "-s", "-f", "-i", patchfile], cwd=root, capture_output=True, text=True)
    if r.returncode != 0:
        r = subprocess.run(["git", "apply", "--ignore-whitespace", patchfile], cwd=root, capture_output=True, text=True)
    return r.returncode == 0


def run_check(prop: str, root: str, tier: str = "quick"):
    out = tempfile.mkdtemp(prefix="xv-out-")
    try:
        env = dict(os.environ, XV_OUT_DIR=out, PYTHONDONTWRITEBYTECODE="1")
        r = subprocess.run([PY, os.path.join(VERIF, "check"), prop, "--tier", tier, "--repo", root,
                            "--evidence", os.path.join(out, "ev.json")], capture_output=True, text=True, env=env, cwd=VERIF)
        return r.returncode, r.stdout + r.stderr
    finally:
        shutil.rmtree(out, ignore_errors=True)


def compiles(root: str, relfile: str) -> bool:
    import ast
    try:
        with open(os.path.join(root, relfile), encoding="utf-8") as f:
            ast.parse(f.read())
        return True
    except SyntaxError:
        return False


def run_mutant(args):
    m, repo = args
    root = make_scratch(repo)
    try:
        if m.get("kind", "replace") == "patch":
            ok = apply_patch(root, os.path.join(VERIF, m["patch"]))
            files = []
        else:
            edits = m.get("edits") or [dict(file=m["file"], old=m["old"], new=m["new"], count=m.get("count", 1))]
            ok = all(apply_replace(root, e["file"], e["old"], e["new"], e.get("count", 1)) for e in edits)
            files = [e["file"] for e in edits]
        if not ok:
            return dict(id=m["id"], prop=m["prop"], status="skipped", detail="pattern not present on this tree")
        for f in files:
            if not compiles(root, f):
                return dict(id=m["id"], prop=m["prop"], status="error", detail="mutant does not compile")
        if os.environ.get("XV_SELFTEST_RESPELL"):
            # detection must survive a behaviour-preserving re-spelling of the *mutated* tree
            import respell
            for t in os.environ["XV_SELFTEST_RESPELL"].split(","):
                for pth in respell._files(root):
                    respell._write(pth, respell.TRANSFORMS[t](respell._read(pth), pth))
        rc, out = run_check(m["prop"], root)
        rules = m.get("expect_rule")
        rules = [rules] if isinstance(rules, str) else (rules or [])
        fired = rc == 1 and "VIOLATION property=%s" % m["prop"] in out
        named = (not rules) or any(("/%s]" % r) in out for r in rules)
        if m.get("expect", "fire") == "silent":
            st = "ok-silent" if rc == 0 else "false-alarm"
            return dict(id=m["id"], prop=m["prop"], status=st, rc=rc, detail=out[-600:] if rc else "")
        if m.get("expect") == "undetected":
            return dict(id=m["id"], prop=m["prop"], status="known-limit" if rc == 0 else ("killed" if fired else "rc%d" % rc), rc=rc,
                        detail="documented limit of the static rules: " + m.get("note", ""))
        if fired and named:
            return dict(id=m["id"], prop=m["prop"], status="killed", rc=rc)
        return dict(id=m["id"], prop=m["prop"], status="survived" if rc == 0 else ("wrong-rule" if fired else "rc%d" % rc),
                    rc=rc, detail=out[-1500:])
    finally:
        shutil.rmtree(root, ignore_errors=True)


def load_mutants(props=None):
    sys.path.insert(0, HERE)
    import mutants as M
    ms = M.all_mutants()
    if props:
        ms = [m for m in ms if m["prop"] in props]
    return ms


def run_all(repo="/repo", props=None, jobs=16, verbose=True):
    ms = load_mutants(props)
    with ProcessPoolExecutor(max_workers=jobs) as ex:
        res = list(ex.map(run_mutant, [(m, repo) for m in ms]))
    return res


if __name__ == "__main__":
    import argparse
    ap = argparse.ArgumentParser()
    ap.add_argument("props", nargs="*")
    ap.add_argument("--repo", default="/repo")
    ap.add_argument("--jobs", type=int, default=16)
    ap.add_argument("-v", action="store_true")
    ap.add_argument("--respell", default="", help="comma-separated respell transforms applied to every mutated tree")
    a = ap.parse_args()
    if a.respell:
        os.environ["XV_SELFTEST_RESPELL"] = a.respell
        sys.path.insert(0, HERE)
    res = run_all(a.repo, set(p.upper() for p in a.props) or None, a.jobs)
    bad = 0
    from collections import Counter
    c = Counter(r["status"] for r in res)
    for r in res:
        if r["status"] not in ("killed", "ok-silent", "known-limit"):
            print("%-8s %-40s %s" % (r["prop"], r["id"], r["status"]))
            if a.v or r["status"] not in ("skipped",):
                print("      " + (r.get("detail") or "").replace("\n", "\n      ")[-1200:])
            if r["status"] != "skipped":
                bad += 1
    print("self-test: %d mutants: %s" % (len(res), dict(c)))
    sys.exit(1 if bad else 0)
