"""Second part of the mutant corpus (C07, C12, C14, C15 and later additions)."""
from mutants import R, P, ERK, ARK, IVP, MISC, FQ, QUAD, I1D, INTERP, EXTRAP, SQ, SQI


def c07():
    return [
        # ---- tableau algebra
        R("c07-rk4-b", "C07", ERK, "    b=[1 / 6., 1 / 3., 1 / 3., 1 / 6.],", "    b=[1 / 6., 1 / 3., 1 / 6., 1 / 3.],", "C07-T"),
        R("c07-rk4-a", "C07", ERK, "       [0.0, 0.0, 1.0, 0.0]]\n)\nrk38", "       [0.0, 0.5, 0.5, 0.0]]\n)\nrk38", "C07-T",
          note="row sums still hold, order-4 conditions fail"),
        R("c07-rk38-a-sign", "C07", ERK, "       [-1 / 3, 1.0, 0.0, 0.0],", "       [1 / 3, 1.0, 0.0, 0.0],", "C07-T"),
        R("c07-rk38-c", "C07", ERK, "    c=[0.0, 1 / 3, 2 / 3, 1.0],\n    b=[1 / 8", "    c=[0.0, 1 / 3, 1 / 3, 1.0],\n    b=[1 / 8", "C07-T"),
        R("c07-euler-b", "C07", ERK, "    b=[1.0],", "    b=[0.5],", "C07-T"),
        R("c07-rk4-other-order4", "C07", ERK, "    b=[1 / 6., 1 / 3., 1 / 3., 1 / 6.],\n    a=[[0.0, 0.0, 0.0, 0.0],\n       [0.5, 0.0, 0.0, 0.0],\n       [0.0, 0.5, 0.0, 0.0],\n       [0.0, 0.0, 1.0, 0.0]]",
          "    b=[1 / 6., 0.0, 2 / 3., 1 / 6.],\n    a=[[0.0, 0.0, 0.0, 0.0],\n       [0.5, 0.0, 0.0, 0.0],\n       [-0.5, 1.0, 0.0, 0.0],\n       [0.0, 0.5, 0.5, 0.0]]", None, expect="undetected",
          note="filled below"),
        R("c07-rk4-literal-respelled", "C07", ERK, "    c=[0.0, 0.5, 0.5, 1.0],\n    b=[1 / 6., 1 / 3., 1 / 3., 1 / 6.],", "    c=[0.0, 1 / 2, 2 / 4., 1.0],\n    b=[1 / 6, 2 / 6., 1 / 3., 0.5 / 3],", None, expect="silent",
          note="same rationals, different spelling"),
        R("c07-rk23-E", "C07", ARK, "    E = torch.tensor([5 / 72, -1 / 12, -1 / 9, 1 / 8], dtype=torch.float64)", "    E = torch.tensor([5 / 72, -1 / 12, -1 / 9, 1 / 9], dtype=torch.float64)", "C07-T"),
        R("c07-rk23-E-sumzero-wrong", "C07", ARK, "    E = torch.tensor([5 / 72, -1 / 12, -1 / 9, 1 / 8], dtype=torch.float64)", "    E = torch.tensor([5 / 72, -1 / 9, -1 / 12, 1 / 8], dtype=torch.float64)", "C07-T",
          note="still sums to zero; second-order conditions of the embedded solution fail"),
        R("c07-rk45-A", "C07", ARK, "        [44 / 45, -56 / 15, 32 / 9, 0, 0],", "        [44 / 45, -56 / 15, 32 / 9, 0, 0][::1] if False else [44 / 45, -56 / 15, 32 / 8, 0, 0],", None, expect="undetected", note="placeholder"),
        R("c07-rk45-A2", "C07", ARK, "[19372 / 6561, -25360 / 2187, 64448 / 6561, -212 / 729, 0]", "[19372 / 6561, -25360 / 2187, 64448 / 6561, -212 / 792, 0]", "C07-T"),
        R("c07-rk45-B", "C07", ARK, "    B = torch.tensor([35 / 384, 0, 500 / 1113, 125 / 192, -2187 / 6784, 11 / 84], dtype=torch.float64)",
          "    B = torch.tensor([35 / 384, 0, 500 / 1113, 125 / 192, -2187 / 6784, 11 / 48], dtype=torch.float64)", "C07-T"),
        R("c07-rk45-E-last", "C07", ARK, "                      1 / 40], dtype=torch.float64)", "                      1 / 4], dtype=torch.float64)", "C07-T"),
        R("c07-rk45-C", "C07", ARK, "    C = torch.tensor([0, 1 / 5, 3 / 10, 4 / 5, 8 / 9, 1], dtype=torch.float64)", "    C = torch.tensor([0, 1 / 5, 3 / 10, 4 / 5, 9 / 8, 1], dtype=torch.float64)", "C07-T"),
        R("c07-rk23-est-order", "C07", ARK, "class RK23(RKAdaptiveStepSolver):\n    error_estimator_order = 2", "class RK23(RKAdaptiveStepSolver):\n    error_estimator_order = 3", "C07-T"),
        R("c07-rk45-est-order", "C07", ARK, "class RK45(RKAdaptiveStepSolver):\n    error_estimator_order = 4", "class RK45(RKAdaptiveStepSolver):\n    error_estimator_order = 3", "C07-T",
          note="a lower declared estimator order changes the exponent: not the 5(4) pair"),
        # ---- dispatch
        R("c07-dispatch-swap", "C07", IVP, '            "rk4": rk4_ivp,\n            "rk38": rk38_ivp,', '            "rk4": rk38_ivp,\n            "rk38": rk4_ivp,', ["C07-N", "C07-D"]),
        R("c07-rk38-uses-rk4-tableau", "C07", ERK, "    return explicit_rk(rk38_tableau, fcn, t, y0, params)", "    return explicit_rk(rk4_tableau, fcn, t, y0, params)", "C07-N"),
        R("c07-adaptive-swap-cls", "C07", ARK, "    return _rk_adaptive(fcn, ts, y0, params, RK23, **kwargs)", "    return _rk_adaptive(fcn, ts, y0, params, RK45, **kwargs)", "C07-N"),
        R("c07-adaptive-drop-kwargs", "C07", ARK, "    return _rk_adaptive(fcn, ts, y0, params, RK45, **kwargs)", "    return _rk_adaptive(fcn, ts, y0, params, RK45)", "C07-D",
          note="atol/rtol silently ignored for rk45"),
        R("c07-adaptive-tol-swapped", "C07", ARK, "    solver = cls(atol=atol, rtol=rtol)", "    solver = cls(atol=rtol, rtol=atol)", "C07-D"),
        # ---- explicit stepper roles
        R("c07-erk-c-index", "C07", ERK, "                k = fcn(t0 + c[j] * h, h * ak + y, *params)", "                k = fcn(t0 + c[j - 1] * h, h * ak + y, *params)", "C07-R"),
        R("c07-erk-no-h-state", "C07", ERK, "                k = fcn(t0 + c[j] * h, h * ak + y, *params)", "                k = fcn(t0 + c[j] * h, ak + y, *params)", "C07-R"),
        R("c07-erk-b-for-c", "C07", ERK, "                k = fcn(t0 + c[j] * h, h * ak + y, *params)", "                k = fcn(t0 + b[j] * h, h * ak + y, *params)", "C07-R"),
        R("c07-erk-a-index", "C07", ERK, "                    ak = aj[m] * ks[m] + ak", "                    ak = aj[m] * ks[j - 1] + ak", "C07-R"),
        R("c07-erk-a-row", "C07", ERK, "                aj = a[j]", "                aj = a[j - 1]", "C07-R"),
        R("c07-erk-update-c", "C07", ERK, "            ksum = ksum + b[j] * k", "            ksum = ksum + c[j] * k", "C07-R"),
        R("c07-erk-update-from-y0", "C07", ERK, "        y = h * ksum + y\n", "        y = h * ksum + y0\n", "C07-R"),
        R("c07-erk-stage-range", "C07", ERK, "        for j in range(s):", "        for j in range(s - 1):", "C07-R"),
        R("c07-erk-h-fixed", "C07", ERK, "        h = t1 - t0\n", "        h = t[1] - t[0]\n", ["C07-R", "C07-I"], note="uniform-grid assumption: wrong on ragged grids only"),
        R("c07-erk-time-t1", "C07", ERK, "                k = fcn(t0, y, *params)", "                k = fcn(t1, y, *params)", "C07-R"),
        R("c07-erk-first-row-clone-scaled", "C07", ERK, "    yt_lst.append(y0)\n", "    yt_lst.append(y0 * 1.0000001)\n", "C07-0"),
        R("c07-erk-params-dropped", "C07", ERK, "                k = fcn(t0 + c[j] * h, h * ak + y, *params)", "                k = fcn(t0 + c[j] * h, h * ak + y)", "C07-R"),
        R("c07-erk-equivalent-respelling", "C07", ERK, "                k = fcn(t0 + c[j] * h, h * ak + y, *params)\n            ks.append(k)\n            ksum = ksum + b[j] * k\n        y = h * ksum + y",
          "                k = fcn(h * c[j] + t0, y + ak * h, *params)\n            ks.append(k)\n            ksum = k * b[j] + ksum\n        y = y + ksum * h", None, expect="silent"),
        R("c07-erk-locals-renamed", "C07", ERK, "        t0 = t[i]\n        t1 = t[i + 1]\n        h = t1 - t0\n", "        ta = t[i]\n        t0 = ta\n        dt = t[i + 1] - ta\n        h = dt\n        t1 = ta + dt\n", None, expect="silent"),
        R("c07-erk-precomputed-steps-ok", "C07", ERK, "    yt_lst: List[torch.Tensor] = []\n    yt_lst.append(y0)", "    hs = t[1:] - t[:-1]\n    yt_lst: List[torch.Tensor] = []\n    yt_lst.append(y0)", None, expect="silent",
          note="precomputing the differences changes nothing"),
        R("c07-erk-precomputed-steps-used-ok", "C07", ERK, "        t1 = t[i + 1]\n        h = t1 - t0\n", "        h = (t[1:] - t[:-1])[i]\n", None, expect="silent"),
        R("c07-erk-uniform-shortcut", "C07", ERK, "        t1 = t[i + 1]\n        h = t1 - t0\n", "        hs = t[1:] - t[:-1]\n        if torch.allclose(hs, hs[:1]):\n            hs = hs[:1].expand(nt - 1)\n        h = hs[i]\n", "C07-R"),
        R("c07-erk-two-steps-per-interval", "C07", ERK, "        y = h * ksum + y\n        yt_lst.append(y)", "        y = h * ksum + y\n        yt_lst.append(y)\n        if i == nt - 2:\n            yt_lst[-1] = y + 0 * ksum", None, expect="undetected",
          note="placeholder removed below"),
        # ---- rk_step
        R("c07-rkstep-c-offset", "C07", ARK, "    for s, (a, c) in enumerate(zip(A[1:], C[1:]), start=1):", "    for s, (a, c) in enumerate(zip(A[1:], C[:-1]), start=1):", "C07-R"),
        R("c07-rkstep-B-all-rows", "C07", ARK, "    ynew = y + h * torch.matmul(K[:-1].T, B)", "    ynew = y + torch.matmul(K[:-1].T, B)", "C07-R"),
        R("c07-rkstep-fsal-time", "C07", ARK, "    fnew = func(t + h, ynew)", "    fnew = func(t, ynew)", "C07-R"),
        R("c07-rkstep-fsal-not-stored", "C07", ARK, "    K[-1] = fnew\n", "    K[-2] = fnew\n", "C07-R"),
        R("c07-rkstep-dy-no-h", "C07", ARK, "        dy = torch.matmul(K[:s].T, a[:s]) * h", "        dy = torch.matmul(K[:s].T, a[:s])", "C07-R"),
        R("c07-rkstep-stage-time", "C07", ARK, "        K[s] = func(t + c * h, y + dy)", "        K[s] = func(t + h, y + dy)", "C07-R"),
        R("c07-rkstep-equivalent", "C07", ARK, "        dy = torch.matmul(K[:s].T, a[:s]) * h\n        K[s] = func(t + c * h, y + dy)", "        incr = h * torch.matmul(K[:s].T, a[:s])\n        K[s] = func(h * c + t, incr + y)", None, expect="silent"),
        # ---- controller
        R("c07-exponent", "C07", ARK, "        self.error_exponent = -1. / (self.error_estimator_order + 1.)", "        self.error_exponent = -1. / self.error_estimator_order", "C07-X"),
        R("c07-exponent-sign", "C07", ARK, "        self.error_exponent = -1. / (self.error_estimator_order + 1.)", "        self.error_exponent = 1. / (self.error_estimator_order + 1.)", "C07-X"),
        R("c07-accept-no-rtol", "C07", ARK, "            scale = self.atol + torch.max(y0.norm(), ynew.norm()) * self.rtol", "            scale = self.atol + torch.max(y0.norm(), ynew.norm())", "C07-X"),
        R("c07-accept-atol-only", "C07", ARK, "            scale = self.atol + torch.max(y0.norm(), ynew.norm()) * self.rtol", "            scale = self.atol", "C07-X"),
        R("c07-accept-flipped", "C07", ARK, "            accepted = errnorm < 1\n", "            accepted = errnorm < 10\n", "C07-X"),
        R("c07-accept-uses-h-not-hstep", "C07", ARK, "            errnorm = self._error_norm(self.K, hstep) / scale", "            errnorm = self._error_norm(self.K, h) / scale", "C07-X",
          note="error scaled with the un-truncated step: only differs on the step that lands on a requested time"),
        R("c07-errnorm-no-h", "C07", ARK, "        err = torch.matmul(K.T, self.E) * h\n", "        err = torch.matmul(K.T, self.E)\n", "C07-X"),
        R("c07-errnorm-drops-fsal", "C07", ARK, "        err = torch.matmul(K.T, self.E) * h\n", "        err = torch.matmul(K[:-1].T, self.E[:-1]) * h\n", "C07-X"),
        R("c07-K-rows", "C07", ARK, "        self.K = torch.empty((self.n_stages + 1, n), dtype=self.dtype, device=self.device)", "        self.K = torch.empty((self.n_stages + 2, n), dtype=self.dtype, device=self.device)", "C07-X"),
        R("c07-no-landing", "C07", ARK, "            hstep = t1 - t0 if t1_achieved else h\n", "            hstep = h\n", "C07-X"),
        R("c07-landing-wrong-test", "C07", ARK, "            t1_achieved = t0 + h > t1\n", "            t1_achieved = t0 + h > t1 + h\n", "C07-X"),
        R("c07-shrink-min", "C07", ARK, "                factor = max(self.min_factor, self.step_mult * errnorm ** self.error_exponent)", "                factor = min(self.min_factor, self.step_mult * errnorm ** self.error_exponent)", "C07-X"),
        R("c07-state-layout", "C07", ARK, "        rk_state = (fnew, tnew, ynew, h)\n        return rk_state, t1_achieved", "        rk_state = (fnew, tnew, y0, h)\n        return rk_state, t1_achieved", ["C07-L", "C07-X"]),
        R("c07-state-tnew", "C07", ARK, "            tnew = t0 + hstep\n", "            tnew = t0 + h\n", ["C07-L", "C07-X"]),
        R("c07-abck-order", "C07", ARK, "            abck = (self.A, self.B, self.C, self.K)", "            abck = (self.A, self.C, self.B, self.K)", "C07-L"),
        R("c07-solve-wrong-component", "C07", ARK, "            yt[i] = rk_state[2]", "            yt[i] = rk_state[0]", "C07-L"),
        R("c07-solve-init-f0", "C07", ARK, "        f0 = self.func(t0, self.y0)\n", "        f0 = self.func(self.ts[1], self.y0)\n", "C07-L"),
        R("c07-solve-row0", "C07", ARK, "        yt[0] = self.y0\n", "        yt[0] = self.y0 + 0 * f0\n", "C07-0"),
        R("c07-solve-reads-next", "C07", ARK, "            rk_state = self._step(rk_state, ts[i])", "            rk_state = self._step(rk_state, ts[min(i, len(ts) - 1)])", "C07-I"),
        R("c07-step-lookahead", "C07", ARK, "        t1_achieved = False\n        while not t1_achieved:", "        t1_achieved = False\n        tend = self.ts[-1]\n        while not t1_achieved:", "C07-I",
          note="a method other than solve reads the grid"),
        # ---- time reversal
        R("c07-reverse-f-sign", "C07", ARK, "            self.func = lambda t, y: -fcn(-t, y.reshape(yshape), *params).reshape(-1)", "            self.func = lambda t, y: fcn(-t, y.reshape(yshape), *params).reshape(-1)", "C07-V"),
        R("c07-reverse-t-sign", "C07", ARK, "            self.func = lambda t, y: -fcn(-t, y.reshape(yshape), *params).reshape(-1)", "            self.func = lambda t, y: -fcn(t, y.reshape(yshape), *params).reshape(-1)", "C07-V"),
        R("c07-reverse-test", "C07", ARK, "        if direction < 0:", "        if direction > 0:", "C07-V"),
        R("c07-reverse-params", "C07", ARK, "            self.func = lambda t, y: -fcn(-t, y.reshape(yshape), *params).reshape(-1)", "            self.func = lambda t, y: -fcn(-t, y.reshape(yshape)).reshape(-1)", "C07-V"),
        R("c07-reverse-sign-form-correct", "C07", ARK, "        direction = ts[1] - ts[0]\n        if direction < 0:\n            self.ts = -ts\n            self.func = lambda t, y: -fcn(-t, y.reshape(yshape), *params).reshape(-1)\n        else:\n            self.ts = ts\n            self.func = lambda t, y: fcn(t, y.reshape(yshape), *params).reshape(-1)",
          "        sign = -1.0 if ts[1] < ts[0] else 1.0\n        self.ts = sign * ts\n        self.func = lambda t, y: sign * fcn(sign * t, y.reshape(yshape), *params).reshape(-1)", None, expect="silent",
          note="a correct single-expression spelling of the reversal"),
        R("c07-reverse-sign-form-wrong", "C07", ARK, "        direction = ts[1] - ts[0]\n        if direction < 0:\n            self.ts = -ts\n            self.func = lambda t, y: -fcn(-t, y.reshape(yshape), *params).reshape(-1)\n        else:\n            self.ts = ts\n            self.func = lambda t, y: fcn(t, y.reshape(yshape), *params).reshape(-1)",
          "        sign = -1.0 if ts[1] < ts[0] else 1.0\n        self.ts = sign * ts\n        self.func = lambda t, y: sign * fcn(t, y.reshape(yshape), *params).reshape(-1)", "C07-V"),
        # ---- tuple states
        R("c07-tuple-result-not-packed", "C07", IVP, "        return roller.pack(res)", "        return roller.pack(y0)", "C07-P"),
        R("c07-packer-offset", "C07", MISC, "            istart = ifinish\n\n    def flatten", "            istart = ifinish + 0 * i\n            istart = istart if i else ifinish - 0\n\n    def flatten", None, expect="undetected", note="placeholder removed below"),
        R("c07-packer-overlap", "C07", MISC, "            ifinish = istart + torch.numel(p)\n            self.idx_shapes.append((istart, ifinish, p.shape))\n            istart = ifinish",
          "            ifinish = istart + torch.numel(p)\n            self.idx_shapes.append((istart, ifinish, p.shape))\n            istart = ifinish - 1 if i > 2 else ifinish", "C07-P"),
        R("c07-packer-reversed", "C07", MISC, "        return torch.cat([y.reshape(-1) for y in y_list], dim=-1)", "        return torch.cat([y.reshape(-1) for y in reversed(y_list)], dim=-1)", "C07-P"),
    ]


def c07_specialised():
    """restructured explicit stepper (zip over the tableau row: outside the size-parametric interpreter) - decided by specialisation"""
    old = '                ak: Union[float, torch.Tensor] = 0.0\n                aj = a[j]\n                for m in range(j):\n                    ak = aj[m] * ks[m] + ak\n'
    return [
        R("c07-erk-zip-ok", "C07", ERK, old, '                ak: Union[float, torch.Tensor] = 0.0\n                for ajm, kprev in zip(a[j], ks):\n                    ak = ajm * kprev + ak\n', None, expect="silent", note="zip(a[j], ks) stops at the j stages computed so far: the same sum"),
        R("c07-erk-zip-shifted-row", "C07", ERK, old, '                ak: Union[float, torch.Tensor] = 0.0\n                for ajm, kprev in zip(a[j][1:], ks):\n                    ak = ajm * kprev + ak\n', "C07-R", note="zip(a[j][1:], ks): every coefficient paired with the wrong stage"),
        R("c07-erk-zip-wrong-row", "C07", ERK, old, '                ak: Union[float, torch.Tensor] = 0.0\n                for ajm, kprev in zip(a[j - 1], ks):\n                    ak = ajm * kprev + ak\n', "C07-R", note="row j-1 of the tableau"),
        R("c07-erk-zip-reversed", "C07", ERK, old, '                ak: Union[float, torch.Tensor] = 0.0\n                for ajm, kprev in zip(a[j], reversed(ks)):\n                    ak = ajm * kprev + ak\n', "C07-R", note="stages paired in reverse order"),
    ]


def round8():
    """silent twins and variants of the rules added in the eighth round (the seeded changes themselves are mutants through seeded())"""
    from mutants import S_IMPL, S_PUB, MCMC
    return [
        R("c01-guard-where-eq0-ok", "C01", S_IMPL, "    r[r == 0] = eps\n    return r", "    return torch.where(r == 0, torch.full_like(r, eps), r)", None, expect="silent",
          note="out-of-place, still exact zeros only"),
        R("c01-guard-clamp", "C01", S_IMPL, "    r[r == 0] = eps\n    return r", "    return r.clamp_min(eps)", "C01-G", note="clamps every small (and every negative) divisor"),
        R("c18-zero-test-method-form-ok", "C18", S_PUB, "        if torch.all(B == 0):  # special case", "        if (B == 0).all():  # special case", None, expect="silent"),
        R("c18-zero-test-dot", "C18", S_PUB, "        if torch.all(B == 0):  # special case", "        if torch.sum(B * B.conj()).real.sqrt() == 0:  # special case", None, expect="undecided-or-fire",
          note="placeholder: replaced below"),
    ]


def c12():
    return [
        R("c12-halfwidth", "C12", FQ, "    xs = xlg * (0.5 * (xu - xl)) + (0.5 * (xu + xl))", "    xs = xlg * (xu - xl) + (0.5 * (xu + xl))", "C12-A"),
        R("c12-midpoint", "C12", FQ, "    xs = xlg * (0.5 * (xu - xl)) + (0.5 * (xu + xl))", "    xs = xlg * (0.5 * (xu - xl)) + (0.5 * (xu - xl))", "C12-A",
          note="right only when xl = 0: the tests integrate from 0"),
        R("c12-weights-unscaled", "C12", FQ, "    wlg *= 0.5 * (xu - xl)\n", "    wlg *= 0.5 * (xu + xl)\n", "C12-A"),
        R("c12-weights-abs", "C12", FQ, "    wlg *= 0.5 * (xu - xl)\n", "    wlg *= 0.5 * (xl - xu)\n", "C12-A"),
        R("c12-range-short", "C12", FQ, "    for i in range(1, n):", "    for i in range(1, n - 1):", "C12-I"),
        R("c12-range-from-2", "C12", FQ, "    for i in range(1, n):", "    for i in range(2, n):", "C12-I"),
        R("c12-index-mismatch", "C12", FQ, "        res += wlg[i] * fcn(xs[i], *params)", "        res += wlg[i] * fcn(xs[i - 1], *params)", "C12-I"),
        R("c12-first-term-twice", "C12", FQ, "    for i in range(1, n):", "    for i in range(0, n):", "C12-I"),
        R("c12-params-dropped-in-loop", "C12", FQ, "        res += wlg[i] * fcn(xs[i], *params)", "        res += wlg[i] * fcn(xs[i])", "C12-I"),
        R("c12-n-fixed", "C12", FQ, "    xlg, wlg = np.polynomial.legendre.leggauss(n)", "    xlg, wlg = np.polynomial.legendre.leggauss(max(n, 2))", "C12-A"),
        R("c12-equivalent-respelling", "C12", FQ, "    wlg *= 0.5 * (xu - xl)\n    xs = xlg * (0.5 * (xu - xl)) + (0.5 * (xu + xl))", "    halfw = (xu - xl) / 2\n    wlg = halfw * wlg\n    xs = (xu + xl) * 0.5 + halfw * xlg", None, expect="silent"),
        R("c12-equivalent-zero-start", "C12", FQ, "    res = wlg[0] * fcn(xs[0], *params)\n    for i in range(1, n):\n        res += wlg[i] * fcn(xs[i], *params)",
          "    res = 0.0\n    for k in range(n):\n        res = res + fcn(xs[k], *params) * wlg[k]", None, expect="silent"),
        R("c12-pairwise-correct", "C12", FQ, "    for i in range(1, n):\n        res += wlg[i] * fcn(xs[i], *params)\n",
          "    if n > 1:\n        res += wlg[n - 1] * fcn(xs[n - 1], *params)\n    for i in range(1, n // 2):\n        res += wlg[i] * fcn(xs[i], *params)\n        res += wlg[n - 1 - i] * fcn(xs[n - 1 - i], *params)\n    if n % 2 == 1 and n > 1:\n        res += wlg[n // 2] * fcn(xs[n // 2], *params)\n",
          None, expect="silent", note="a correct pairwise accumulation: decided by specialisation, must stay silent"),
        R("c12-pairwise-centre-missing", "C12", FQ, "    for i in range(1, n):\n        res += wlg[i] * fcn(xs[i], *params)\n",
          "    if n > 1:\n        res += wlg[n - 1] * fcn(xs[n - 1], *params)\n    for i in range(1, n // 2):\n        res += wlg[i] * fcn(xs[i], *params)\n        res += wlg[n - 1 - i] * fcn(xs[n - 1 - i], *params)\n",
          "C12-I", note="odd n >= 3 loses the centre node"),
        R("c12-as-tensor-conditional", "C12", QUAD, "            xl = torch.as_tensor(xl, dtype=dtype, device=device)\n", "            if not ctx.xltensor:\n                xl = torch.as_tensor(xl, dtype=dtype, device=device)\n", "C12-N"),
        R("c12-dxdt-wrong", "C12", QUAD, "        return sec * sec\n", "        return sec\n", "C12-S"),
        R("c12-dxdt-equivalent", "C12", QUAD, "        sec = 1. / torch.cos(t)\n        return sec * sec\n", "        tn = torch.tan(t)\n        return 1 + tn * tn\n", None, expect="silent"),
        R("c12-dxdt-other-t", "C12", QUAD, "                    dxdt = tfm.dxdt(t)\n", "                    dxdt = tfm.dxdt(tl)\n", "C12-S"),
        R("c12-no-jacobian", "C12", QUAD, "                    return ys * dxdt\n", "                    return ys\n", "C12-S"),
        R("c12-upper-untransformed", "C12", QUAD, "                tu = tfm.x2t(xu)\n", "                tu = xu\n", "C12-S"),
        R("c12-limits-swapped-inf", "C12", QUAD, "                tl = tfm.x2t(xl)\n                tu = tfm.x2t(xu)\n", "                tl = tfm.x2t(xu)\n                tu = tfm.x2t(xl)\n", "C12-S"),
        R("c12-only-upper-inf", "C12", QUAD, "            if _isinf(xl) or _isinf(xu):", "            if _isinf(xu):", "C12-S"),
        R("c12-isinf-posonly", "C12", QUAD, "    return torch.any(torch.isinf(x))", "    return torch.any(torch.isposinf(x))", "C12-S"),
        R("c12-as-tensor-default-dtype", "C12", QUAD, "            xu = torch.as_tensor(xu, dtype=dtype, device=device)", "            xu = torch.as_tensor(xu, device=device)", "C12-N"),
        R("c12-sibling-dropped", "C12", QUAD, "                @make_sibling(fcn)\n                def fcn2(t, *params):", "                def fcn2(t, *params):", ["C12-S", "C09-S"]),
        R("c12-tuple-not-packed", "C12", QUAD, "        return packer.pack(res)", "        return res", "C12-P"),
        R("c12-finite-branch-swapped", "C12", QUAD, "                tl = xl\n                tu = xu\n", "                tl = xu\n                tu = xl\n", "C12-S"),
    ]


def c14():
    G = "xitorch/_impls/interpolate/interp_1d.py"
    return [
        # ---- evaluation formulas
        R("c14-cubic-p2", "C14", G, "            p2 = (b - 2 * a)  # (*BY, nr-1)", "            p2 = (b - a)  # (*BY, nr-1)", "C14-E"),
        R("c14-cubic-p3-sign", "C14", G, "            p3 = a - b  # (*BY, nr-1)", "            p3 = b - a  # (*BY, nr-1)", "C14-E"),
        R("c14-cubic-b-sign", "C14", G, "            b = -ks[..., 1:] * dx + dy  # (*BY, nr-1)", "            b = -ks[..., :-1] * dx + dy  # (*BY, nr-1)", "C14-E",
          note="right slope replaced by the left slope: only the many-queries formula"),
        R("c14-cubic-t-denominator", "C14", G, "            t = (xq - torch.gather(xl, -1, idxl)) / torch.gather(dx, -1, idxl)  # (*BX, nrq)\n            # yq = p0", "            t = (xq - torch.gather(xl, -1, idxl))  # (*BX, nrq)\n            # yq = p0", "C14-E"),
        R("c14-cubic-few-tkr-sign", "C14", G, "            tkr = -ttb * dxrl", "            tkr = ttb * dxrl", "C14-E"),
        R("c14-cubic-few-tyl", "C14", G, "            tyl = tinv + tta - ttb", "            tyl = tinv + tta + ttb", "C14-E"),
        R("c14-cubic-few-kr-is-kl", "C14", G, "            kr = torch.gather(ks, dim=-1, index=idxr).contiguous()", "            kr = torch.gather(ks, dim=-1, index=idxl).contiguous()", "C14-E"),
        R("c14-cubic-horner-order", "C14", G, "            yq += torch.gather(p2, dim=-1, index=idxl)\n            yq *= t\n            yq += torch.gather(p1, dim=-1, index=idxl)", "            yq += torch.gather(p1, dim=-1, index=idxl)\n            yq *= t\n            yq += torch.gather(p2, dim=-1, index=idxl)", "C14-E"),
        R("c14-linear-many", "C14", G, "            yq = torch.gather(dy, dim=-1, index=idxl) * t\n            yq += torch.gather(yl, dim=-1, index=idxl)", "            yq = torch.gather(dy, dim=-1, index=idxl) * t\n            yq += torch.gather(y[..., 1:], dim=-1, index=idxl)", "C14-E"),
        R("c14-linear-few", "C14", G, "            yq = yl + dyrl * t\n", "            yq = yr + dyrl * t\n", "C14-E"),
        R("c14-cubic-equivalent", "C14", G, "            tyl = tinv + tta - ttb\n            tyr = t - tta + ttb", "            tyl = 1 - t - ttb + tta\n            tyr = ttb + t - tta", None, expect="silent"),
        R("c14-linear-equivalent", "C14", G, "            yq = yl + dyrl * t\n", "            yq = yr * t + (1 - t) * yl\n", None, expect="silent"),
        # ---- search
        R("c14-clamp-lower", "C14", G, "        idxr = torch.clamp(idxr, 1, nr - 1)\n        idxl = idxr - 1  # (*BX, nrq) from (0 to nr-2)", "        idxr = torch.clamp(idxr, 0, nr - 1)\n        idxl = idxr - 1  # (*BX, nrq) from (0 to nr-2)", "C14-S",
          note="a query at the first knot gets left index -1"),
        R("c14-clamp-upper", "C14", G, "        idxr = torch.clamp(idxr, 1, nr - 1)\n        idxl = idxr - 1  # (nrq) from (0 to nr-2)", "        idxr = torch.clamp(idxr, 1, nr)\n        idxl = idxr - 1  # (nrq) from (0 to nr-2)", "C14-S"),
        R("c14-search-args", "C14", G, "        idxr = torch.searchsorted(x.detach(), xq.detach(), right=False)  # (nrq)", "        idxr = torch.searchsorted(x.detach(), xq.detach(), right=True)  # (nrq)", "C14-S"),
        # ---- slope system
        R("c14-sys-diag", "C14", G, "    diag = (dxinv[..., :-1] + dxinv[..., 1:]) * 2  # (*BX,nr)", "    diag = (dxinv[..., :-1] + dxinv[..., 1:]) * 3  # (*BX,nr)", "C14-B"),
        R("c14-sys-rhs3", "C14", G, "    dxinv2 = (dxinv * dxinv) * 3", "    dxinv2 = (dxinv * dxinv) * 2", "C14-B"),
        R("c14-sys-ldiagr-sign", "C14", G, "    ldiagr = -udiagr", "    ldiagr = udiagr", "C14-B"),
        R("c14-sys-offdiag-shift", "C14", G, "    spldiag[..., :] = offdiag", "    spldiag[..., :] = dxinv[..., 2:]", "C14-B"),
        R("c14-sys-clamped-rhs", "C14", G, "        matr[..., -1, :] = 0.\n", "        matr[..., 0, :] = 0.\n", "C14-B", note="last clamped row keeps its natural right-hand side"),
        R("c14-sys-clamped-diag", "C14", G, "        spline_mat[..., -1, -1] = 1.\n", "        spline_mat[..., -1, -2] = 1.\n", "C14-B"),
        R("c14-sys-nak-first", "C14", G, "        spline_mat[..., 0, 1] = dxinv00_sq - dxinv01_sq", "        spline_mat[..., 0, 1] = dxinv00_sq + dxinv01_sq", "C14-B"),
        R("c14-sys-nak-rhs", "C14", G, "        matr[..., 0, 1] = 2 * (dxinv00_3 + dxinv01_3)", "        matr[..., 0, 1] = 2 * (dxinv00_3 - dxinv01_3)", "C14-B"),
        R("c14-sys-nak-last-index", "C14", G, "        dxinv0nm1_sq = dxinv0[..., -2]**2", "        dxinv0nm1_sq = dxinv0[..., -3]**2", "C14-B"),
        R("c14-sys-per-first", "C14", G, "        spline_mat[..., 0, 0] += dxinv01 * 2", "        spline_mat[..., 0, 0] += dxinv00 * 2", "C14-B"),
        R("c14-sys-per-col", "C14", G, "        spline_mat[..., 0, -2] += dxinv01", "        spline_mat[..., 0, -1] += dxinv01", "C14-B"),
        R("c14-sys-per-rhs-sign", "C14", G, "        matr[..., -1, -1] -= dxinv00_sq3", "        matr[..., -1, -1] += dxinv00_sq3", "C14-B"),
        R("c14-sys-solve-swapped", "C14", G, "    spline_mat_inv = torch.linalg.solve(spline_mat, matr)", "    spline_mat_inv = torch.linalg.solve(matr, spline_mat)", "C14-B"),
        R("c14-sys-scaled-row-ok", "C14", G, "        spline_mat[..., 0, 0] = 1.\n        spline_mat[..., -1, :] = 0.\n        spline_mat[..., -1, -1] = 1.", "        spline_mat[..., 0, 0] = 2.\n        spline_mat[..., -1, :] = 0.\n        spline_mat[..., -1, -1] = 0.5", None, expect="silent",
          note="rows are compared up to scaling"),
        R("c14-sys-equivalent-spelling", "C14", G, "    dxinv2 = (dxinv * dxinv) * 3\n    diagr = (dxinv2[..., :-1] - dxinv2[..., 1:])", "    dxinv2 = 3 * dxinv**2\n    diagr = -(dxinv2[..., 1:] - dxinv2[..., :-1])", None, expect="silent"),
        # ---- slopes
        R("c14-ks-wrong-y", "C14", G, "            ks = torch.matmul(self.spline_mat_inv, y.unsqueeze(-1)).squeeze(-1)  # (*BY, nr)", "            ks = torch.matmul(self.spline_mat_inv, self._y.unsqueeze(-1)).squeeze(-1)  # (*BY, nr)", "C14-K"),
        R("c14-bc-default", "C14", G, "            bc_type = \"not-a-knot\"\n        extrap = check_and_get_extrap", "            bc_type = \"natural\"\n        extrap = check_and_get_extrap", "C14-K"),
        R("c14-bc-not-forwarded", "C14", G, "        self.spline_mat_inv = _get_spline_mat_inv(x, bc_type)  # (*BX, nr, nr)", "        self.spline_mat_inv = _get_spline_mat_inv(x, \"not-a-knot\")  # (*BX, nr, nr)", "C14-K"),
        R("c14-cache-stale", "C14", G, "            ks = torch.matmul(self.spline_mat_inv, y.unsqueeze(-1)).squeeze(-1)  # (*BY, nr)", "            ks = torch.matmul(self.spline_mat_inv, y.unsqueeze(-1)).squeeze(-1)  # (*BY, nr)\n            self._ks_cache = ks", "C14-H"),
        # ---- modes
        R("c14-mode-route-missing", "C14", G, "        elif extrap == \"mirror\" or extrap == \"periodic\" or extrap == \"bound\":", "        elif extrap == \"mirror\" or extrap == \"periodic\":", "C14-X",
          note="'bound' falls to get_extrap_val and raises"),
        R("c14-default-extrap", "C14", G, "                \"clamped\": \"mirror\",", "                \"clamped\": \"reflect\",", "C14-X"),
        R("c14-mask-open", "C14", G, "        xqinterp_mask = torch.logical_and(xq >= self._xmin, xq <= self._xmax)  # (*BX, nrq)", "        xqinterp_mask = torch.logical_and(xq > self._xmin, xq <= self._xmax)  # (*BX, nrq)", "C14-X",
          note="the first knot itself is treated as outside"),
        R("c14-nan-fill", "C14", EXTRAP, "        return torch.empty(shape, dtype=dtype, device=device) * float(\"nan\")", "        return torch.empty(shape, dtype=dtype, device=device)", "C14-X"),
        R("c14-denormalise", "C14", EXTRAP, "    return xqinside * (xmax - xmin) + xmin", "    return xqinside * (xmax - xmin) + xmax", "C14-M"),
        R("c14-mirror-wrong", "C14", EXTRAP, "        xqinside = (2 * xqhalf - xqnorm) * (1 - (xqnorm_ceil % 2.0) * 2)", "        xqinside = (2 * xqhalf - xqnorm) * ((xqnorm_ceil % 2.0) * 2 - 1)", "C14-M"),
        R("c14-mirror-ceil", "C14", EXTRAP, "        xqnorm_ceil = xqnorm.long() + 1", "        xqnorm_ceil = xqnorm.long() + 2", "C14-M"),
        R("c14-bound-clamp", "C14", EXTRAP, "        xqinside = torch.clamp(xqnorm, 0.0, 1.0)", "        xqinside = torch.clamp(xqnorm, 0.0, 0.5)", "C14-M"),
        R("c14-periodic-mod", "C14", EXTRAP, "        xqinside = xqnorm % 1.0", "        xqinside = xqnorm % 2.0", "C14-M"),
        # ---- sort pairing
        R("c14-late-y-unsorted", "C14", INTERP, "            y = torch.gather(y, dim=-1, index=idx)\n        return self.obj(xq, y)", "            y = y\n        return self.obj(xq, y)", "C14-P"),
        R("c14-init-y-unsorted", "C14", INTERP, "                y = torch.gather(y, dim=-1, index=idx)\n            else:", "                y = y + 0\n            else:", "C14-P"),
        R("c14-idx-not-stored", "C14", INTERP, "                self.idx = idx\n", "                pass\n", "C14-P"),
        R("c14-xq-detached", "C14", G, "            xq2 = xq.clone()", "            xq2 = xq.detach().clone()", "C14-D"),
    ]


def c15():
    return [
        R("c15-trapz-coef", "C15", SQI, "    half_dx = (x[..., 1:] - x[..., :-1]) * 0.5  # (..., nx-1)", "    half_dx = (x[..., 1:] - x[..., :-1]) * 0.25  # (..., nx-1)", "C15-W"),
        R("c15-trapz-rows", "C15", SQI, "        res[..., i:, i - 1:i + 1] += half_dx[..., i - 1:i].unsqueeze(-1)", "        res[..., i - 1:, i - 1:i + 1] += half_dx[..., i - 1:i].unsqueeze(-1)", ["C15-W", "C15-0"],
          note="interval i-1 already counted in row i-1: row 0 becomes non-zero"),
        R("c15-trapz-interval-shift", "C15", SQI, "        res[..., i:, i - 1:i + 1] += half_dx[..., i - 1:i].unsqueeze(-1)", "        res[..., i:, i - 1:i + 1] += half_dx[..., i - 2:i - 1].unsqueeze(-1)", "C15-W",
          note="uses the previous interval's width: invisible on uniform grids"),
        R("c15-trapz-loop-start", "C15", SQI, "    half_dx = (x[..., 1:] - x[..., :-1]) * 0.5  # (..., nx-1)\n    nx = x.shape[-1]\n    shape = list(x.shape[:-1]) + [nx, nx]\n    res = torch.zeros(shape, dtype=x.dtype, device=x.device)\n    for i in range(1, nx):",
          "    half_dx = (x[..., 1:] - x[..., :-1]) * 0.5  # (..., nx-1)\n    nx = x.shape[-1]\n    shape = list(x.shape[:-1]) + [nx, nx]\n    res = torch.zeros(shape, dtype=x.dtype, device=x.device)\n    for i in range(2, nx):", "C15-W"),
        R("c15-cspline-12", "C15", SQI, "    dx_factor = dx * dx / 12.  # (..., nx-1)", "    dx_factor = dx * dx / 6.  # (..., nx-1)", "C15-W"),
        R("c15-cspline-sign", "C15", SQI, "    sign = torch.tensor([1., -1.], dtype=x.dtype, device=x.device)", "    sign = torch.tensor([-1., 1.], dtype=x.dtype, device=x.device)", "C15-W"),
        R("c15-cspline-dx-linear", "C15", SQI, "    dx_factor = dx * dx / 12.  # (..., nx-1)", "    dx_factor = dx / 12.  # (..., nx-1)", "C15-W"),
        R("c15-simpson-alpha", "C15", SQI, "    alpha = (2 * h1_3 - h0_3 + 3 * h0 * h1_2) / (6 * h1 * (h1 + h0))", "    alpha = (2 * h1_3 - h0_3 + 3 * h1 * h0_2) / (6 * h1 * (h1 + h0))", "C15-W",
          note="equal on uniform grids"),
        R("c15-simpson-h-swapped", "C15", SQI, "    h1 = h[..., 1::2]  # (..., (nx-2)//2)\n    h0 = h[..., :-1:2]  # (..., (nx-2)//2)", "    h0 = h[..., 1::2]  # (..., (nx-2)//2)\n    h1 = h[..., :-1:2]  # (..., (nx-2)//2)", "C15-W"),
        R("c15-simpson-beta-col", "C15", SQI, "        res[..., i:, i - 2] += eta[..., j:j + 1]\n        res[..., i:, i - 1] += beta[..., j:j + 1]", "        res[..., i:, i - 1] += eta[..., j:j + 1]\n        res[..., i:, i - 2] += beta[..., j:j + 1]", "C15-W"),
        R("c15-simpson-odd-sign", "C15", SQI, "        res[..., i, i - 2] += -eta_l[..., j]", "        res[..., i, i - 2] += eta_l[..., j]", "C15-W"),
        R("c15-simpson-odd-rows", "C15", SQI, "        res[..., i, i] += alpha_l[..., j]", "        res[..., i:, i] += alpha_l[..., j]", "C15-W"),
        R("c15-simpson-hN", "C15", SQI, "    hN2 = h[..., 1:-1:2]  # (..., (nx-3)//2)", "    hN2 = h[..., :-2:2]  # (..., (nx-3)//2)", "C15-W"),
        R("c15-simpson-row1", "C15", SQI, "    res[..., 1, :2] = 0.5 * h[..., 0]", "    res[..., 1, :2] = 0.5 * h[..., 1]", "C15-W"),
        R("c15-simpson-j", "C15", SQI, "    for i in range(2, nx, 2):\n        j = i // 2 - 1", "    for i in range(2, nx, 2):\n        j = i // 2", "C15-W"),
        R("c15-simpson-equivalent", "C15", SQI, "    alpha = (2 * h1_3 - h0_3 + 3 * h0 * h1_2) / (6 * h1 * (h1 + h0))", "    alpha = (h1 + h0) * (2 * h1 - h0) / (6 * h1)", None, expect="silent",
          note="(2h1^3 - h0^3 + 3 h0 h1^2) = (h1 + h0)^2 (2 h1 - h0): same rational function"),
        R("c15-integrate-row", "C15", SQI, "        return torch.sum(y * self.w[..., -1, :], dim=-1)", "        return torch.sum(y * self.w[..., -2, :], dim=-1)", "C15-L"),
        R("c15-integrate-col", "C15", SQI, "        return torch.sum(y * self.w[..., -1, :], dim=-1)", "        return torch.sum(y * self.w[..., :, -1], dim=-1)", "C15-L"),
        R("c15-cspline-integrate-wk-row", "C15", SQI, "        kfactor = torch.einsum(\"c,...c->...\", self.wk[-1], ks)", "        kfactor = torch.einsum(\"c,...c->...\", self.wk[0], ks)", "C15-L"),
        R("c15-cspline-integrate-no-slope", "C15", SQI, "        return kfactor + yfactor\n\n    def getparamnames", "        return yfactor\n\n    def getparamnames", ["C15-B", "C15-L"]),
        R("c15-cspline-slopes-of-wrong", "C15", SQI, "        kfactor = torch.matmul(self.wk, ks)  # (*, nx, 1)\n        yfactor = torch.matmul(self.wy, y1)  # (*, nx, 1)", "        kfactor = torch.matmul(self.wk, y1)  # (*, nx, 1)\n        yfactor = torch.matmul(self.wy, y1)  # (*, nx, 1)", "C15-B"),
        R("c15-bc-dropped", "C15", SQI, "        spline_mat = _get_spline_mat_inv(x, bc_type=bc_type)", "        spline_mat = _get_spline_mat_inv(x, bc_type=\"natural\")", "C15-B"),
        R("c15-cumsum-transposed-weights", "C15", SQI, "        return torch.sum(y.unsqueeze(-2) * self.w, dim=-1)", "        return torch.sum(y.unsqueeze(-1) * self.w, dim=-2)", "C15-L",
          note="contracts the row axis: W^T y"),
        R("c15-no-length-check", "C15", SQ, "        if y.shape[-1] != self.nx:\n            raise RuntimeError(\"The length of integrated dimension does not match with x\")\n        res = self.obj.cumsum(y)", "        res = self.obj.cumsum(y)", "C15-R"),
        R("c15-length-check-before-swap", "C15", SQ, "        swapaxes = dim != -1\n        if swapaxes:\n            y = y.transpose(dim, -1)\n        if y.shape[-1] != self.nx:\n            raise RuntimeError(\"The length of integrated dimension does not match with x\")\n        res = self.obj.cumsum(y)",
          "        swapaxes = dim != -1\n        if y.shape[-1] != self.nx:\n            raise RuntimeError(\"The length of integrated dimension does not match with x\")\n        if swapaxes:\n            y = y.transpose(dim, -1)\n        res = self.obj.cumsum(y)", ["C15-R", "C15-D"],
          note="checks the last axis instead of the integrated one"),
        R("c15-cumsum-no-swap-back", "C15", SQ, "        res = self.obj.cumsum(y)\n        if swapaxes:\n            res = res.transpose(dim, -1)\n        return res", "        res = self.obj.cumsum(y)\n        return res", "C15-D"),
        R("c15-keepdim-ignored", "C15", SQ, "        if not keepdim:\n            res = res.squeeze(dim)", "        res = res.squeeze(dim)", "C15-D"),
        R("c15-squeeze-last", "C15", SQ, "            res = res.squeeze(dim)", "            res = res.squeeze(-1)", "C15-D"),
        R("c15-method-table", "C15", SQ, '            "simpson": SimpsonSQuad,\n            "trapz": TrapzSQuad,', '            "simpson": TrapzSQuad,\n            "trapz": TrapzSQuad,', ["C15-M", "C15-W"], expect="fire"),
    ]


def c05():
    EI = "xitorch/_impls/linalg/symeig.py"
    PUBS = "xitorch/linalg/symeig.py"
    TE = "xitorch/_utils/tensor.py"
    return [
        R("c05-backtransform-P", "C05", EI, "        evecs = torch.matmul(LinvT, evecs)\n", "        evecs = torch.matmul(Linv, evecs)\n", "C05-R"),
        R("c05-backtransform-missing", "C05", EI, "        evecs = torch.matmul(LinvT, evecs)\n        return evals, evecs", "        return evals, evecs", "C05-R"),
        R("c05-reduction-order", "C05", EI, "        A2 = torch.matmul(Linv, torch.matmul(Amatrix, LinvT))", "        A2 = torch.matmul(LinvT, torch.matmul(Amatrix, Linv))", "C05-R"),
        R("c05-reduction-noconj", "C05", EI, "        LinvT = Linv.transpose(-2, -1).conj()  # (*BM, q, q)", "        LinvT = Linv.transpose(-2, -1)  # (*BM, q, q)", ["C05-R", "C02-H"]),
        R("c05-reduction-L-not-inv", "C05", EI, "        Linv = torch.inverse(L)  # (*BM, q, q)", "        Linv = L  # (*BM, q, q)", "C05-R"),
        R("c05-reduction-chol-of-A", "C05", EI, "        L = torch.linalg.cholesky(Mmatrix)  # (*BM, q, q)", "        L = torch.linalg.cholesky(Amatrix)  # (*BM, q, q)", "C05-R"),
        R("c05-reduction-equivalent", "C05", EI, "        A2 = torch.matmul(Linv, torch.matmul(Amatrix, LinvT))", "        A2 = torch.matmul(torch.matmul(Linv, Amatrix), LinvT)", None, expect="silent"),
        R("c05-take-upper-values-only", "C05", EI, "        eival = eival[..., -neig:]\n        eivec = eivec[..., -neig:]", "        eival = eival[..., -neig:]\n        eivec = eivec[..., :neig]", "C05-T"),
        R("c05-take-lowest-rows", "C05", EI, "        eivec = eivec[..., :neig]\n    else", "        eivec = eivec[..., :neig, :]\n    else", "C05-T"),
        R("c05-take-swapped-args", "C05", EI, "        eigvalT, eigvecT = _take_eigpairs(eigvalT, eigvecT, neig, mode)", "        eigvalT, eigvecT = _take_eigpairs(eigvalT, eigvecT, nguess, mode)", "C05-T"),
        R("c05-mode-uppermost", "C05", PUBS, "    if mode == \"uppermost\":\n        mode = \"uppest\"\n", "", "C05-T"),
        R("c05-tallqr-R", "C05", TE, "    Rinv = torch.inverse(R)  # (*BMV, nguess, nguess)", "    Rinv = torch.inverse(R).transpose(-2, -1)  # (*BMV, nguess, nguess)", "C05-Q"),
        R("c05-tallqr-gram", "C05", TE, "    VTV = torch.matmul(V.transpose(-2, -1), MV)  # (*BMV, nguess, nguess)", "    VTV = torch.matmul(V.transpose(-2, -1), V)  # (*BMV, nguess, nguess)", "C05-Q",
          note="M ignored in the orthonormalisation"),
        R("c05-tallqr-lower", "C05", TE, "    R = torch.linalg.cholesky(VTV.transpose(-2, -1).conj()).transpose(-2, -1).conj()  # (*BMV, nguess, nguess)", "    R = torch.linalg.cholesky(VTV.transpose(-2, -1).conj())  # (*BMV, nguess, nguess)", "C05-Q"),
        R("c05-dav-T", "C05", EI, "        T = torch.matmul(VT, AV)  # (*BAM,nguess,nguess)", "        T = torch.matmul(VT, V)  # (*BAM,nguess,nguess)", "C05-D"),
        R("c05-dav-resid-noM", "C05", EI, "        if M is not None:\n            LVs = M.mm(LVs)\n        resid = AVs - LVs", "        resid = AVs - LVs", "C05-D"),
        R("c05-dav-resid-wrongvec", "C05", EI, "        LVs = eigvalT.unsqueeze(-2) * eigvecA  # (*BAM, na, neig)", "        LVs = eigvalT.unsqueeze(-2) * AVs  # (*BAM, na, neig)", "C05-D"),
        R("c05-dav-best-after-break", "C05", EI, "        if max_resid < best_resid:\n            best_resid = max_resid\n            best_eigvals = eigvalT\n            best_eigvecs = eigvecA\n        if max_resid < min_eps:\n            break",
          "        if max_resid < min_eps:\n            break\n        if max_resid < best_resid:\n            best_resid = max_resid\n            best_eigvals = eigvalT\n            best_eigvecs = eigvecA", "C05-D",
          note="the converged pair is never recorded"),
        R("c05-dav-qr-noM", "C05", EI, "            V, R = tallqr(Vnew, MV=MV_)", "            V, R = tallqr(Vnew)", "C05-D"),
        R("c05-dav-stop", "C05", EI, "        if max_resid < min_eps:\n            break", "        if max_deigval < min_eps:\n            break", "C05-D"),
        R("c05-svd-gram-swapped", "C05", PUBS, "        AAsym = A.matmul(A.H, is_hermitian=True)\n        min_nm = m", "        AAsym = A.H.matmul(A, is_hermitian=True)\n        min_nm = m", "C05-S"),
        R("c05-svd-other-factor", "C05", PUBS, "        v = A.rmm(u) / sdiv  # (*BA, n, k)", "        v = A.rmm(u)  # (*BA, n, k)", "C05-S"),
        R("c05-svd-no-hermitian-flag", "C05", PUBS, "        AAsym = A.H.matmul(A, is_hermitian=True)", "        AAsym = A.H.matmul(A)", "C05-S"),
        R("c05-svd-vh-noconj", "C05", PUBS, "    vh = v.transpose(-2, -1).conj()", "    vh = v.transpose(-2, -1)", ["C05-S", "C02-H"]),
        R("c05-svd-noclamp", "C05", PUBS, "    eivals = torch.clamp(eivals, min=0.0)\n", "", "C05-S"),
        R("c05-svd-respelled-ok", "C05", PUBS, "    eivals = torch.clamp(eivals, min=0.0)\n    s = torch.sqrt(eivals)  # (*BA, k)", "    eivals = eivals.clamp(min=0)\n    s = eivals.sqrt()  # (*BA, k)", None, expect="silent"),
        R("c05-svd-vh-respelled-ok", "C05", PUBS, "    vh = v.transpose(-2, -1).conj()", "    vh = v.conj().transpose(-1, -2)", None, expect="silent"),
        R("c05-hermitian-check-dropped", "C05", PUBS, "        assert_runtime(M.is_hermitian, \"The linear operator M must be Hermitian\")\n", "", "C05-V"),
    ]


def c06():
    EI = "xitorch/_impls/linalg/symeig.py"
    PUBS = "xitorch/linalg/symeig.py"
    return [
        R("c06-create-graph", "C06", PUBS, "            grad_outputs=(gaccumA,),\n            create_graph=torch.is_grad_enabled(),", "            grad_outputs=(gaccumA,),\n            create_graph=False,", "AC3"),
        R("c06-options-not-splatted", "C06", PUBS, "                gevecs = solve(A, -B, evals_offset, M, bck_options=ctx.bck_config,\n                               **ctx.bck_config)", "                gevecs = solve(A, -B, evals_offset, M, bck_options=ctx.bck_config)", "AC5"),
        R("c06-rhs-sign", "C06", PUBS, "                gevecs = solve(A, -B, evals_offset, M,", "                gevecs = solve(A, B, evals_offset, M,", "C06-S"),
        R("c06-no-projection", "C06", PUBS, "            B = _ortho(grad_evecs, evecs, D=idx_degen, M=M, mright=False)", "            B = grad_evecs", "C06-S"),
        R("c06-projection-no-degen-map", "C06", PUBS, "            B = _ortho(grad_evecs, evecs, D=idx_degen, M=M, mright=False)", "            B = _ortho(grad_evecs, evecs, D=None, M=M, mright=False)", "C06-S",
          note="degenerate subspaces are not projected out: singular shifted system when eigenvalues coincide"),
        R("c06-reproject-mleft", "C06", PUBS, "            gevecsA = _ortho(gevecs, evecs, D=None, M=M, mright=True)", "            gevecsA = _ortho(gevecs, evecs, D=None, M=M, mright=False)", "C06-S"),
        R("c06-shift-wrong", "C06", PUBS, "                evals_offset = evals\n", "                evals_offset = evals * 0\n", "C06-S"),
        R("c06-M-sign", "C06", PUBS, "            gevalsM = -gevalsA * evals.unsqueeze(-2)", "            gevalsM = gevalsA * evals.unsqueeze(-2)", "C06-M"),
        R("c06-M-par-half", "C06", PUBS, "            gevecsM_par = (-0.5 * torch.einsum(", "            gevecsM_par = (-1.0 * torch.einsum(", "C06-M"),
        R("c06-M-par-dropped", "C06", PUBS, "            gaccumM = gevalsM + gevecsM + gevecsM_par", "            gaccumM = gevalsM + gevecsM", "C06-M"),
        R("c06-M-par-noconj", "C06", PUBS, "grad_evecs, evecs.conj())", "grad_evecs, evecs)", "C06-M"),
        R("c06-pullback-swapped", "C06", PUBS, "                outputs=(mloss,),\n                inputs=mparams,\n                grad_outputs=(gaccumM,),", "                outputs=(mloss,),\n                inputs=mparams,\n                grad_outputs=(gaccumA,),", "C06-M"),
        R("c06-M-equivalent", "C06", PUBS, "            gevalsM = -gevalsA * evals.unsqueeze(-2)\n            gevecsM = -gevecsA * evals.unsqueeze(-2)", "            gevalsM = -(evals.unsqueeze(-2) * gevalsA)\n            gevecsM = evals.unsqueeze(-2) * (-gevecsA)", None, expect="silent"),
        R("c06-ortho-mright-none", "C06", PUBS, "            return A - torch.einsum(str1, M.mm(A), Bconj).unsqueeze(-2) * B", "            return A - torch.einsum(str1, A, Bconj).unsqueeze(-2) * B", "C06-O"),
        R("c06-ortho-mleft-degen", "C06", PUBS, "            DBHA = D * torch.matmul(BH, A)\n            return A - M.mm(torch.matmul(B, DBHA))", "            DBHA = D * torch.matmul(BH, A)\n            return A - torch.matmul(B, DBHA)", "C06-O"),
        R("c06-ortho-noconj", "C06", PUBS, "        BH = B.transpose(-2, -1).conj()\n        if M is None:\n            DBHA", "        BH = B.transpose(-2, -1)\n        if M is None:\n            DBHA", ["C06-O", "C02-H"]),
        R("c06-ortho-no-D", "C06", PUBS, "            DBHA = D * torch.matmul(BH, M.mm(A))", "            DBHA = torch.matmul(BH, M.mm(A))", "C06-O"),
        R("c06-dense-F-orientation", "C06", EI, "            F = eival.unsqueeze(-2) - eival.unsqueeze(-1)", "            F = eival.unsqueeze(-1) - eival.unsqueeze(-2)", "C06-G"),
        R("c06-dense-void-after", "C06", EI, "            F = F.pow(-1)\n            F = F * torch.matmul(eivect, grad_eivec)", "            F = F.pow(-1)\n            F[idx] = 0.0\n            F = F * torch.matmul(eivect, grad_eivec)", None, expect="silent",
          note="voiding twice is harmless"),
        R("c06-dense-no-void", "C06", EI, "            F[idx] = float(\"inf\")\n", "", "C06-G", note="degenerate pairs divide by ~0"),
        R("c06-dense-nosym", "C06", EI, "        result = (result + result.transpose(-2, -1).conj()) * 0.5", "        result = result * 1.0", "C06-G"),
        R("c06-dense-sym-equivalent", "C06", EI, "        result = (result + result.transpose(-2, -1).conj()) * 0.5", "        result = 0.5 * result + result.conj().transpose(-2, -1) / 2", None, expect="silent"),
        R("c06-dense-eivect-noconj", "C06", EI, "        eivect = eivec.transpose(-2, -1).conj()", "        eivect = eivec.transpose(-2, -1)", ["C06-G", "C02-H"]),
        R("c06-degen-threshold", "C06", PUBS, "    degen_thrsh = degen_atol + degen_rtol * torch.abs(evals).unsqueeze(-1)", "    degen_thrsh = degen_atol * degen_rtol * torch.abs(evals).unsqueeze(-1)", "C06-K"),
        R("c06-degen-flag", "C06", PUBS, "    isdegenerate = bool(torch.sum(idx_degen) > torch.numel(evals))", "    isdegenerate = bool(torch.sum(idx_degen) > 0)", "C06-K", note="always 'degenerate': harmless numerically but the rule pins the meaning"),
        R("c06-svd-detach", "C06", PUBS, "        u = eivecs  # (*BA, m, k)", "        u = eivecs.detach()  # (*BA, m, k)", ["C06-D", "C05-S"]),
        R("c06-group-order", "C06", PUBS, "        return (None, None, None, None, None, None, None, *grad_params, *grad_mparams)", "        return (None, None, None, None, None, None, None, *grad_mparams, *grad_params)", "AC6"),
        R("c06-clone-detach", "C06", PUBS, "                mparams = [p.clone().requires_grad_() for p in mparams]", "                mparams = [p.detach().requires_grad_() for p in mparams]", "AC9"),
    ]


def extras():
    S_IMPL = "xitorch/_impls/linalg/solve.py"
    RS = "xitorch/_impls/optimize/root/rootsolver.py"
    MINI = "xitorch/_impls/optimize/minimizer.py"
    return [
        R("c01-normal-eq-order", "C01", S_IMPL, "            return AT_fcn(A_fcn(x))", "            return A_fcn(AT_fcn(x))", "C01-N"),
        R("c01-normal-eq-rhs", "C01", S_IMPL, "        B2 = AT_fcn(B_new)", "        B2 = A_fcn(B_new)", "C01-N"),
        R("c01-normal-eq-rhs-untransformed", "C01", S_IMPL, "        B2 = AT_fcn(B_new)", "        B2 = B_new", "C01-N"),
        R("c01-abe-E-layout", "C01", S_IMPL, "    E = E.reshape(1, *BE, E.shape[-1]).transpose(0, -1)  # (ncols, *BE, 1)", "    E = E.unsqueeze(0).transpose(0, -1)  # (ncols, *BE, 1)", "C01-E"),
        R("c01-abe-B-layout", "C01", S_IMPL, "    B = B.reshape(1, *BB, *B.shape[-2:]).transpose(0, -1)  # (ncols, *BB, na, 1)", "    B = B.unsqueeze(0).transpose(0, -1)  # (ncols, *BB, na, 1)", "C01-E"),
        R("c01-abe-no-unswap", "C01", S_IMPL, "    r = r.transpose(0, -1).squeeze(0)  # (*BAEM, na, ncols)", "    r = r.squeeze(-1).transpose(0, -1)  # (*BAEM, na, ncols)", None, expect="silent",
          note="same shape for every batch pattern? no: kept as a probe"),
        R("c01-setup-E-layout", "C01", S_IMPL, "        E = E.reshape(*BEs, *E.shape[-1:])\n", "        E = E\n", "C01-E"),
        R("c03-tc-early-exit-nan", "C03", RS, "        return (dxnorm < self.x_tol) and (dxnorm < self.x_rtol * xnorm) and \\\n            (ynorm < self.f_tol) and (ynorm < self.f_rtol * self.f0_norm)",
          "        if dxnorm >= self.x_tol or dxnorm >= self.x_rtol * xnorm:\n            return False\n        if ynorm >= self.f_tol or ynorm >= self.f_rtol * self.f0_norm:\n            return False\n        return True", "C03-TC"),
        R("c03-tc-early-exit-nan-safe", "C03", RS, "        return (dxnorm < self.x_tol) and (dxnorm < self.x_rtol * xnorm) and \\\n            (ynorm < self.f_tol) and (ynorm < self.f_rtol * self.f0_norm)",
          "        if not (dxnorm < self.x_tol and dxnorm < self.x_rtol * xnorm):\n            return False\n        if not (ynorm < self.f_tol and self.f_rtol * self.f0_norm > ynorm):\n            return False\n        return True", None, expect="silent"),
        R("c03-tc-or", "C03", RS, "        return (dxnorm < self.x_tol) and (dxnorm < self.x_rtol * xnorm) and \\\n            (ynorm < self.f_tol) and (ynorm < self.f_rtol * self.f0_norm)",
          "        return ((dxnorm < self.x_tol) and (dxnorm < self.x_rtol * xnorm)) or \\\n            ((ynorm < self.f_tol) and (ynorm < self.f_rtol * self.f0_norm))", "C03-TC"),
        R("c03-ever-converge-unguarded", "C03", MINI, "        if not self._ever_converge and res:", "        if converge:", "C03-RB"),
    ]


def generic_rules():
    LINOPF = "xitorch/_core/linop.py"
    JACF = "xitorch/grad/jachess.py"
    RFF = "xitorch/optimize/rootfinder.py"
    QUADF = "xitorch/integrate/quad.py"
    S_PUB = "xitorch/linalg/solve.py"
    return [
        # ---- hidden state
        R("hs-local-dict-ok", "C12", "xitorch/_impls/integrate/fixed_quad.py", "    ndim = len(xu.shape)\n", "    ndim = len(xu.shape)\n    info = {}\n    info[\"n\"] = n\n", None, expect="silent",
          note="mutation of a local container is not state"),
        R("hs-module-memo", "C12", "xitorch/_impls/integrate/fixed_quad.py", "# no gradient flowing in the following functions\n", "# no gradient flowing in the following functions\n_rules = {}\n", None, expect="silent",
          note="an unused module-level dict is not written by any function"),
        R("hs-module-memo-used", "C12", "xitorch/_impls/integrate/fixed_quad.py", "    xlg, wlg = np.polynomial.legendre.leggauss(n)\n", "    if n not in _RULES:\n        _RULES[n] = np.polynomial.legendre.leggauss(n)\n    xlg, wlg = _RULES[n]\n", "HS",
          note="placeholder; needs the module-level dict"),
        R("hs-instance-cache", "C15", "xitorch/integrate/squad.py", "        res = self.obj.cumsum(y)\n", "        self._last_y = y\n        res = self.obj.cumsum(y)\n", "HS"),
        R("hs-class-attr", "C11", LINOPF, "    def _mv(self, x: torch.Tensor) -> torch.Tensor:\n        return self.a._mv(self.b._mv(x))", "    def _mv(self, x: torch.Tensor) -> torch.Tensor:\n        type(self)._ncalls = getattr(type(self), \"_ncalls\", 0) + 1\n        return self.a._mv(self.b._mv(x))", ["HS", "C11-ST"]),
        # ---- wrapper returns / provenance
        R("ac11-return-via-local-ok", "C13", QUADF, "        return _Quadrature.apply(pfunc, xl, xu, fwd_options, bck_options, nparams,\n                                 dtype, device, *params, *pfunc.objparams())", "        result = _Quadrature.apply(pfunc, xl, xu, fwd_options, bck_options, nparams,\n                                   dtype, device, *params, *pfunc.objparams())\n        return result", None, expect="silent"),
        R("ac11-zero-shortcut", "C13", QUADF, "    pfunc = get_pure_function(fcn)\n    nparams = len(params)", "    if isinstance(xl, float) and xl == xu:\n        return out * 0\n    pfunc = get_pure_function(fcn)\n    nparams = len(params)", "AC11"),
        R("ac12-operand-rebound", "C01", S_PUB, "    if method is None:", "    if E is not None and M is None:\n        E = E + 0\n    if method is None:", "AC11", count=1),
        # ---- linop
        R("c11-ip-own-allocation-ok", "C11", LINOPF, "        return self.a._mv(x) * self.f\n", "        y = self.a._mv(x) * self.f\n        return y\n", None, expect="silent",
          note="a local alias of the product changes nothing"),
        R("c11-ip-foreign", "C11", LINOPF, "        return self.a._mv(x) * self.f\n", "        y = self.a._mv(x)\n        y *= self.f\n        return y\n", "C11-IP"),
        R("c11-hf-matmul-inferred", "C11", LINOPF, "        shape = (*get_bcasted_dims(a.shape[:-2], b.shape[:-2]), a.shape[-2], b.shape[-1])\n        super(MatmulLinearOperator, self).__init__(\n            shape=shape,\n            is_hermitian=is_hermitian,",
          "        shape = (*get_bcasted_dims(a.shape[:-2], b.shape[:-2]), a.shape[-2], b.shape[-1])\n        super(MatmulLinearOperator, self).__init__(\n            shape=shape,\n            is_hermitian=is_hermitian or (a.is_hermitian and b.is_hermitian),", ["C11-HF"]),
        R("c11-hf-add-or", "C11", LINOPF, "        is_hermitian = a.is_hermitian and b.is_hermitian\n        super(AddLinearOperator", "        is_hermitian = a.is_hermitian or b.is_hermitian\n        super(AddLinearOperator", "C11-HF"),
        R("c11-hf-add-respelled-ok", "C11", LINOPF, "        is_hermitian = a.is_hermitian and b.is_hermitian\n        super(AddLinearOperator", "        is_hermitian = not (not a.is_hermitian or not b.is_hermitian)\n        super(AddLinearOperator", None, expect="silent"),
        R("c11-sc-complex", "C11", LINOPF, "        if not (isinstance(f, int) or isinstance(f, float)):", "        if not (isinstance(f, int) or isinstance(f, float) or isinstance(f, complex)):", "C11-SC"),
        # ---- jac / hess
        R("c17-jac-append-form-ok", "C17", JACF, "    res = [_Jac(pfcn, params, idx) for idx in idxs_list]\n", "    res = []\n    for idx in idxs_list:\n        res.append(_Jac(pfcn, params, idx))\n", None, expect="silent"),
        R("c17-jac-sorted", "C17", JACF, "    res = [_Jac(pfcn, params, idx) for idx in idxs_list]\n", "    res = [_Jac(pfcn, params, idx) for idx in sorted(idxs_list)]\n", "C17-V"),
        R("c17-idxs-falsy", "C17", JACF, "    if idxs is None:\n        idxs = [i for i, t in enumerate(params)", "    if not idxs:\n        idxs = [i for i, t in enumerate(params)", "C17-V"),
        # ---- dispatch
        R("c18-table-reordered-ok", "C18", RFF, '                "minimizer": _OPT_METHODS,\n                "rootfinder": _RF_METHODS,', '                "rootfinder": _RF_METHODS,\n                "minimizer": _OPT_METHODS,', None, expect="silent"),
        R("c18-table-crossed", "C18", RFF, '                "minimizer": _OPT_METHODS,\n                "rootfinder": _RF_METHODS,', '                "minimizer": _RF_METHODS,\n                "rootfinder": _OPT_METHODS,', "C18-L"),
        R("c18-default-merge-filter", "C18", "xitorch/_utils/misc.py", "    res.update(opt)\n", "    res.update({k: v for k, v in opt.items() if v is not None})\n", "C18-O"),
        # ---- warnings / data
        R("wf-global-filter", "C03", "xitorch/_impls/optimize/root/rootsolver.py", "    x_is_complex = torch.is_complex(x0)\n", "    x_is_complex = torch.is_complex(x0)\n    warnings.simplefilter(\"ignore\")\n", "WF"),
        R("da-data-assign", "C09", "xitorch/_core/editable_module.py", "                del_attr(self, name)\n                set_attr(self, name, val)", "                get_attr(self, name).data = val", ["DA", "C09-N"]),
    ]


def round3():
    """rules added after the third seeding round: firing mutants and equivalent re-spellings that must stay silent"""
    from mutants import R, MISC, S_PUB, ARK, INTERP, EM, PF, JAC, EXTRAP
    IMPL = "xitorch/_impls/linalg/symeig.py"
    ms = [
        # abstract dictionary semantics of set_default_option
        R("r3-merge-unpack-ok", "C18", MISC, "    res = copy.copy(defopt)\n    res.update(opt)\n    return res", "    return {**defopt, **opt}", expect="silent"),
        R("r3-merge-dictcall-ok", "C13", MISC, "    res = copy.copy(defopt)\n    res.update(opt)\n    return res", "    res = dict(defopt)\n    for k, v in opt.items():\n        res[k] = v\n    return res", expect="silent"),
        R("r3-merge-reversed", "C18", MISC, "    res = copy.copy(defopt)\n    res.update(opt)\n    return res", "    return {**opt, **defopt}", "C18-O"),
        R("r3-merge-drops-none", "C18", MISC, "    res.update(opt)\n    return res", "    res.update({k: v for k, v in opt.items() if v is not None})\n    return res", "C18-O"),
        R("r3-merge-inplace", "C13", MISC, "    res = copy.copy(defopt)\n    res.update(opt)\n    return res", "    for k, v in defopt.items():\n        opt.setdefault(k, v)\n    return opt", "OPT"),
        R("r3-merge-alias-shortcut", "C08", MISC, "    res = copy.copy(defopt)\n    res.update(opt)\n    return res", "    if len(opt) == 0:\n        return defopt\n    res = copy.copy(defopt)\n    res.update(opt)\n    return res", "OPT"),
        # abstract lookup semantics of get_method
        R("r3-lookup-guard-first-ok", "C18", MISC, "        if methodname in methods:\n            return methods[methodname]\n        else:\n            raise RuntimeError(\"Unknown %s method: %s\" % (algname, method))",
          "        if methodname not in methods:\n            raise RuntimeError(\"Unknown %s method: %s\" % (algname, method))\n        return methods[methodname]", expect="silent"),
        R("r3-lookup-get-ok", "C07", MISC, "        if methodname in methods:\n            return methods[methodname]\n        else:\n            raise RuntimeError(\"Unknown %s method: %s\" % (algname, method))",
          "        res = methods.get(methodname)\n        if res is None:\n            raise RuntimeError(\"Unknown %s method: %s\" % (algname, method))\n        return res", expect="silent"),
        R("r3-lookup-prefix", "C07", MISC, "        if methodname in methods:\n            return methods[methodname]", "        cands = [k for k in methods if k.startswith(methodname)]\n        if cands:\n            return methods[cands[0]]", "C07-G"),
        R("r3-lookup-endswith", "C18", MISC, "        if methodname in methods:\n            return methods[methodname]", "        cands = [k for k in methods if methodname.endswith(k)]\n        if cands:\n            return methods[cands[0]]", "C18-R"),
        # AC12
        R("r3-saved-alias-ok", "C02", S_PUB, "        return x\n", "        out = x\n        return out\n", expect="silent"),
        R("r3-saved-clone", "C02", S_PUB, "        return x\n", "        return x.clone()\n", "AC12"),
        # tolerances
        R("r3-rtol-float-ok", "C07", ARK, "        self.rtol = rtol", "        self.rtol = float(rtol)", expect="silent"),
        R("r3-atol-scaled", "C07", ARK, "        self.atol = atol", "        self.atol = atol * 10", "C07-X"),
        # None defaults
        R("r3-none-ifexp-ok", "C18", INTERP, "        if method is None:\n            method = \"cspline\"", "        method = \"cspline\" if method is None else method", expect="silent"),
        R("r3-none-not", "C18", INTERP, "        if method is None:\n            method = \"cspline\"", "        if not method:\n            method = \"cspline\"", "NT"),
        # identical-objects predicate
        R("r3-identical-all-ok", "C09", PF, "    for obj1, obj2 in zip(objs1, objs2):\n        if id(obj1) != id(obj2):\n            return False\n    return True", "    return all(o1 is o2 for o1, o2 in zip(objs1, objs2))", expect="silent"),
        R("r3-identical-index-ok", "C04", PF, "    for obj1, obj2 in zip(objs1, objs2):\n        if id(obj1) != id(obj2):\n            return False\n    return True",
          "    for i in range(len(objs1)):\n        if objs1[i] is not objs2[i]:\n            return False\n    return True", expect="silent"),
        R("r3-identical-last-only", "C16", PF, "    for obj1, obj2 in zip(objs1, objs2):\n        if id(obj1) != id(obj2):\n            return False\n    return True",
          "    res = True\n    for obj1, obj2 in zip(objs1, objs2):\n        res = id(obj1) == id(obj2)\n    return res", "SUB-I"),
        # mode slices
        R("r3-take-swapped-arms-ok", "C05", IMPL, "    if mode == \"lowest\":\n        eival = eival[..., :neig]\n        eivec = eivec[..., :neig]\n    else:  # uppest\n        eival = eival[..., -neig:]\n        eivec = eivec[..., -neig:]",
          "    if mode != \"lowest\":\n        eival = eival[..., -neig:]\n        eivec = eivec[..., -neig:]\n    else:\n        eival = eival[..., :neig]\n        eivec = eivec[..., :neig]", expect="silent"),
        R("r3-take-explicit-start-ok", "C05", IMPL, "        eival = eival[..., -neig:]\n        eivec = eivec[..., -neig:]", "        i0 = eival.shape[-1] - neig\n        eival = eival[..., i0:]\n        eivec = eivec[..., i0:]", expect="silent"),
        R("r3-take-off-by-one", "C05", IMPL, "        eival = eival[..., -neig:]\n        eivec = eivec[..., -neig:]", "        i0 = eival.shape[-1] - neig - 1\n        eival = eival[..., i0:]\n        eivec = eivec[..., i0:]", "C05-T"),
        # traversal criteria
        R("r3-crit-both-ok", "C10", EM, "    crit = lambda elmt: isinstance(elmt, torch.Tensor) and elmt.dtype in torch_float_type", "    crit = lambda elmt: isinstance(elmt, torch.Tensor) and elmt.is_floating_point()", count=2, expect="silent"),
        # de-duplication key
        R("r3-dedup-ptr", "C09", EM, "            id_param = id(param)", "            id_param = param.data_ptr()", "SUB-K"),
        # extrapolation shapes
        R("r3-extrap-full-ok", "C14", EXTRAP, "        return torch.empty(shape, dtype=dtype, device=device) * float(\"nan\")", "        return torch.full(shape, float(\"nan\"), dtype=dtype, device=device)", expect="silent"),
        R("r3-extrap-unbatched", "C14", EXTRAP, "        return torch.zeros(shape, dtype=dtype, device=device) + extrap", "        return torch.zeros_like(xqextrap) + extrap", "C14-V"),
    ]
    return ms


def round5():
    """rules added after the fifth (held-out) seeding round"""
    from mutants import R, RF, PF, EQ, RS
    SC = "            grad_nontensor_params = [None for _ in range(param_sep.nnontensors())]\n            grad_params = param_sep.reconstruct_params(grad_tensor_params, grad_nontensor_params)"
    ms = [
        # AC15: hand-written scatter of the gradients
        R("r5-scatter-by-sep-idxs-ok", "C04", RF, SC, "            grad_params = [None] * len(allparams)\n            for i, grad in zip(param_sep.tensor_idxs, grad_tensor_params):\n                grad_params[i] = grad", expect="silent"),
        R("r5-scatter-same-predicate-ok", "C04", RF, SC, "            grad_params = [None] * len(allparams)\n            tensor_idxs = [i for i, p in enumerate(allparams) if isinstance(p, torch.Tensor) and p.requires_grad]\n"
          "            for i, grad in zip(tensor_idxs, grad_tensor_params):\n                grad_params[i] = grad", expect="silent",
          note="allparams holds the saved (requires-grad) tensors at their positions: same classification as the separator"),
        R("r5-scatter-isinstance-only", "C04", RF, SC, "            grad_params = [None] * len(allparams)\n            tensor_idxs = [i for i, p in enumerate(allparams) if isinstance(p, torch.Tensor)]\n"
          "            for i, grad in zip(tensor_idxs, grad_tensor_params):\n                grad_params[i] = grad", "AC15"),
        R("r5-scatter-tensors-first", "C04", RF, SC, "            grad_params = list(grad_tensor_params) + [None] * param_sep.nnontensors()", "AC15"),
        # C03-A: roles of the arguments of the termination test
        R("r5-check-args-named-ok", "C03", EQ, "        to_stop = stop_cond.check(xnew, fnew - xnew, xnew - xn)", "        dev = fnew - xnew\n        step = xnew - xn\n        to_stop = stop_cond.check(xnew, dev, step)", expect="silent"),
        R("r5-check-args-swapped", "C03", EQ, "        to_stop = stop_cond.check(xnew, fnew - xnew, xnew - xn)", "        dev = fnew - xnew\n        step = xnew - xn\n        to_stop = stop_cond.check(xnew, step, dev)", "C03-A"),
        R("r5-check-args-swapped-root", "C03", RS, "        to_stop = stop_cond.check(xnew, ynew, dx)", "        to_stop = stop_cond.check(xnew, dx, ynew)", "C03-A"),
        # C05-T on symbolic axes
        R("r5-take-sliceobj-ok", "C05", "xitorch/_impls/linalg/symeig.py", "    if mode == \"lowest\":\n        eival = eival[..., :neig]\n        eivec = eivec[..., :neig]\n    else:  # uppest\n        eival = eival[..., -neig:]\n        eivec = eivec[..., -neig:]\n    return eival, eivec",
          "    take = slice(None, neig) if mode == \"lowest\" else slice(-neig, None)\n    return eival[..., take], eivec[..., take]", expect="silent"),
        R("r5-take-topk-flip-ok", "C05", "xitorch/_impls/linalg/symeig.py", "    if mode == \"lowest\":\n        eival = eival[..., :neig]\n        eivec = eivec[..., :neig]\n    else:  # uppest\n        eival = eival[..., -neig:]\n        eivec = eivec[..., -neig:]\n    return eival, eivec",
          "    largest = mode != \"lowest\"\n    eival, idx = torch.topk(eival, neig, dim=-1, largest=largest)\n    if largest:\n        eival = eival.flip(-1)\n        idx = idx.flip(-1)\n"
          "    idx = idx.unsqueeze(-2).expand(*eivec.shape[:-1], neig)\n    return eival, torch.gather(eivec, -1, idx)", expect="silent"),
        R("r5-take-topk-descending", "C05", "xitorch/_impls/linalg/symeig.py", "    if mode == \"lowest\":\n        eival = eival[..., :neig]\n        eivec = eivec[..., :neig]\n    else:  # uppest\n        eival = eival[..., -neig:]\n        eivec = eivec[..., -neig:]\n    return eival, eivec",
          "    eival, idx = torch.topk(eival, neig, dim=-1, largest=(mode != \"lowest\"))\n    idx = idx.unsqueeze(-2).expand(*eivec.shape[:-1], neig)\n    return eival, torch.gather(eivec, -1, idx)", "C05-T"),
        R("r5-take-vectors-unpaired", "C05", "xitorch/_impls/linalg/symeig.py", "        eival = eival[..., -neig:]\n        eivec = eivec[..., -neig:]", "        eival = eival[..., -neig:]\n        eivec = eivec[..., -neig:].flip(-1)", "C05-T"),
        R("r5-davidson-merged-exit-ok", "C05", "xitorch/_impls/linalg/symeig.py", "        if max_resid < min_eps:\n            break\n        if AV.shape[-1] == AV.shape[-2]:\n            break", "        if min_eps > max_resid or AV.shape[-2] == AV.shape[-1]:\n            break", expect="silent"),
        R("r5-davidson-infnorm-ok", "C05", "xitorch/_impls/linalg/symeig.py", "        max_resid = resid.abs().max()", "        max_resid = torch.linalg.vector_norm(resid, ord=float(\"inf\"))", expect="silent"),
        R("r5-davidson-2norm", "C05", "xitorch/_impls/linalg/symeig.py", "        max_resid = resid.abs().max()", "        max_resid = torch.linalg.vector_norm(resid, ord=2)", "C05-D"),
        R("r5-tallqr-solve-triangular-ok", "C05", "xitorch/_utils/tensor.py", "    Rinv = torch.inverse(R)  # (*BMV, nguess, nguess)\n    Q = torch.matmul(V, Rinv)", "    Q = torch.linalg.solve_triangular(R, V, upper=True, left=False)", expect="silent"),
        R("r5-tallqr-solve-triangular-left", "C05", "xitorch/_utils/tensor.py", "    Rinv = torch.inverse(R)  # (*BMV, nguess, nguess)\n    Q = torch.matmul(V, Rinv)", "    Q = torch.linalg.solve_triangular(R, V.transpose(-2, -1), upper=True, left=True).transpose(-2, -1)", "C05-Q"),
        # C12-A: absolute value of the interval length, decided for both orientations
        R("r5-leg-abs-nodes-only-ok", "C12", FQ, "    xs = xlg * (0.5 * (xu - xl)) + (0.5 * (xu + xl))  # (n, *nx)", "    xs = xlg * (0.5 * torch.abs(xu - xl)) + (0.5 * (xu + xl))  # (n, *nx)", expect="silent",
          note="mirrored node set with the same (symmetric) weights is the same rule"),
        R("r5-leg-abs-weights", "C12", FQ, "    wlg *= 0.5 * (xu - xl)", "    wlg *= 0.5 * (xu - xl).abs()", "C12-A"),
        # C16-S on symbolic chain states
        R("r5-mh-merged-accept-ok", "C16", "xitorch/_impls/integrate/mcsamples/mcmc.py", "        if logpratio > 0:\n            accept = True\n        else:\n            accept = log_rand[i] < logpratio\n",
          "        accept = logpratio > 0 or log_rand[i] < logpratio\n", expect="silent"),
        R("r5-mh-direct-compare-ok", "C16", "xitorch/_impls/integrate/mcsamples/mcmc.py", "        if logpratio > 0:\n            accept = True\n        else:\n            accept = log_rand[i] < logpratio\n",
          "        accept = logpnext > logpx or log_rand[i] < logpnext - logpx\n", expect="silent"),
        R("r5-mh-stale-logp", "C16", "xitorch/_impls/integrate/mcsamples/mcmc.py", "        if accept:\n            logpx = logpnext\n            x = xnext", "        if accept:\n            x = xnext", "C16-S"),
        R("r5-mh-same-random", "C16", "xitorch/_impls/integrate/mcsamples/mcmc.py", "            accept = log_rand[i] < logpratio", "            accept = log_rand[0] < logpratio", "C16-S"),
        R("r5-mh-always-accept-uphill-only", "C16", "xitorch/_impls/integrate/mcsamples/mcmc.py", "            accept = log_rand[i] < logpratio", "            accept = False", "C16-S",
          note="a greedy walk: downhill moves are never accepted, the chain does not sample p"),
        R("r5-mh-restart-from-x0", "C16", "xitorch/_impls/integrate/mcsamples/mcmc.py", "    samples = _mh_sample(logpfcn, x, pparams, nsamples, step_size, True)", "    samples = _mh_sample(logpfcn, x0, pparams, nsamples, step_size, True)", ["C16-S", "C16-U"]),
        # C16-W: _integrate on symbolic samples
        R("r5-integrate-stack-sum-ok", "C16", "xitorch/integrate/mcquad.py", "    res = 0.0\n    for x, w in zip(xsamples, wsamples):\n        res = res + ffcn(x, *fparams) * w\n    return res",
          "    terms = [w * ffcn(x, *fparams) for (x, w) in zip(xsamples, wsamples)]\n    return torch.stack(terms, dim=0).sum(dim=0)", expect="silent"),
        R("r5-integrate-index-ok", "C16", "xitorch/integrate/mcquad.py", "    res = 0.0\n    for x, w in zip(xsamples, wsamples):\n        res = res + ffcn(x, *fparams) * w\n    return res",
          "    res = 0.0\n    for i in range(nsamples):\n        res = res + wsamples[i] * ffcn(xsamples[i], *fparams)\n    return res", expect="silent"),
        R("r5-integrate-weights-shifted", "C16", "xitorch/integrate/mcquad.py", "    res = 0.0\n    for x, w in zip(xsamples, wsamples):\n        res = res + ffcn(x, *fparams) * w\n    return res",
          "    res = 0.0\n    for i in range(nsamples):\n        res = res + wsamples[i - 1] * ffcn(xsamples[i], *fparams)\n    return res", "C16-W"),
        R("r5-integrate-skips-first", "C16", "xitorch/integrate/mcquad.py", "    res = 0.0\n    for x, w in zip(xsamples, wsamples):\n        res = res + ffcn(x, *fparams) * w\n    return res",
          "    terms = [w * ffcn(x, *fparams) for (x, w) in zip(xsamples[1:], wsamples[1:])]\n    return sum(terms)", "C16-W"),
        # class tokens: table-driven dispatch
        R("r5-dispatch-table-ok", "C09", PF, "        if isinstance(obj, EditableModule):\n            return EditableModulePureFunction(obj, fcn)\n        elif isinstance(obj, torch.nn.Module):\n            return TorchNNPureFunction(obj, fcn)\n        else:\n            raise RuntimeError(errmsg)",
          "        for objtype, wrapper in ((EditableModule, EditableModulePureFunction), (torch.nn.Module, TorchNNPureFunction)):\n            if isinstance(obj, objtype):\n                return wrapper(obj, fcn)\n        raise RuntimeError(errmsg)", expect="silent"),
        R("r5-dispatch-table-reversed", "C09", PF, "        if isinstance(obj, EditableModule):\n            return EditableModulePureFunction(obj, fcn)\n        elif isinstance(obj, torch.nn.Module):\n            return TorchNNPureFunction(obj, fcn)\n        else:\n            raise RuntimeError(errmsg)",
          "        for objtype, wrapper in ((torch.nn.Module, TorchNNPureFunction), (EditableModule, EditableModulePureFunction)):\n            if isinstance(obj, objtype):\n                return wrapper(obj, fcn)\n        raise RuntimeError(errmsg)", "C09-D"),
    ]
    return ms


def round6():
    """rules added after the sixth (held-out) seeding round"""
    from mutants import R, RS, QUAD, PACK, S_IMPL
    ms = [
        # AC16: the value of a cotangent steers control flow
        R("r6-cotangent-zero-shortcut", "C13", QUAD, "        nparams = ctx.nparams\n        params = allparams[:nparams]\n        fcn = ctx.fcn\n",
          "        nparams = ctx.nparams\n        params = allparams[:nparams]\n        fcn = ctx.fcn\n        if not grad_ys.any():\n            grad_ys = grad_ys * 0\n", "AC16",
          note="first-order values unchanged; the recorded backward no longer depends on the cotangent on that piece"),
        R("r6-cotangent-shape-test-ok", "C13", QUAD, "        nparams = ctx.nparams\n        params = allparams[:nparams]\n        fcn = ctx.fcn\n",
          "        nparams = ctx.nparams\n        params = allparams[:nparams]\n        fcn = ctx.fcn\n        if grad_ys.ndim == 0 or grad_ys.shape[0] == 0:\n            nparams = ctx.nparams\n", expect="silent",
          note="shape / None-ness of a cotangent is not its value"),
        # C03-TN: the termination norms
        R("r6-termination-norm-last-dim", "C03", RS, "        ynorm = y.norm()\n", "        ynorm = y.norm(dim=-1).max()\n", "C03-TN"),
        R("r6-termination-vector-norm-ok", "C03", RS, "        ynorm = y.norm()\n", "        ynorm = torch.linalg.vector_norm(y)\n", expect="silent"),
        R("r6-termination-flat-linalg-norm-ok", "C03", RS, "        ynorm = y.norm()\n", "        ynorm = torch.linalg.norm(y.reshape(-1), 2)\n", expect="silent"),
        # C20-T: the two traversals must test the kinds in the same order
        R("r6-put-object-before-list", "C20", PACK, "        b = tensors.pop(0)\n    elif isinstance(b, list):\n        for i, elmt in enumerate(b):\n            b[i] = _put_tensors(elmt, tensors)\n    elif isinstance(b, dict):\n"
          "        for key, elmt in b.items():\n            b[key] = _put_tensors(elmt, tensors)\n    elif hasattr(b, \"__dict__\"):\n        for key, elmt in b.__dict__.items():\n            b.__dict__[key] = _put_tensors(elmt, tensors)\n",
          "        b = tensors.pop(0)\n    elif hasattr(b, \"__dict__\"):\n        for key, elmt in b.__dict__.items():\n            b.__dict__[key] = _put_tensors(elmt, tensors)\n    elif isinstance(b, list):\n"
          "        for i, elmt in enumerate(b):\n            b[i] = _put_tensors(elmt, tensors)\n    elif isinstance(b, dict):\n        for key, elmt in b.items():\n            b[key] = _put_tensors(elmt, tensors)\n", "C20-T",
          note="plain lists / dicts / objects behave as before; an OrderedDict or a list subclass is refilled through the wrong view"),
        R("r6-put-dict-before-list-ok", "C20", PACK, "    elif isinstance(b, list):\n        for i, elmt in enumerate(b):\n            b[i] = _put_tensors(elmt, tensors)\n    elif isinstance(b, dict):\n"
          "        for key, elmt in b.items():\n            b[key] = _put_tensors(elmt, tensors)\n",
          "    elif isinstance(b, dict):\n        for key, elmt in b.items():\n            b[key] = _put_tensors(elmt, tensors)\n    elif isinstance(b, list):\n        for i, elmt in enumerate(b):\n            b[i] = _put_tensors(elmt, tensors)\n",
          expect="silent", note="nothing is both a list and a dict: the order of these two tests does not matter"),
        # C01-S by path conditions
        R("r6-unswap-conditional-return-ok", "C01", S_IMPL, "    if col_swapped:\n        # x: (ncols, *, nr, 1)\n        xk = xk.transpose(0, -1).squeeze(0)  # (*, nr, ncols)\n    return xk\n",
          "    return xk.transpose(0, -1).squeeze(0) if col_swapped else xk\n", expect="silent"),
        R("r6-unswap-inverted", "C01", S_IMPL, "    if col_swapped:\n        # x: (ncols, *, nr, 1)\n        xk = xk.transpose(0, -1).squeeze(0)  # (*, nr, ncols)\n    return xk\n",
          "    return xk if col_swapped else xk.transpose(0, -1).squeeze(0)\n", "C01-S"),
    ]
    return ms


def seeded():
    """the independently seeded changes kept under /verif/seeded that the property's own check detects"""
    import json
    import os
    here = os.path.dirname(os.path.dirname(os.path.abspath(__file__)))
    out = []
    sd = os.path.join(here, "seeded")
    if not os.path.isdir(sd):
        return out
    for sid in sorted(os.listdir(sd)):
        mp = os.path.join(sd, sid, "meta.json")
        if not os.path.exists(mp) or not os.path.exists(os.path.join(sd, sid, "patch.diff")):
            continue
        meta = json.load(open(mp))
        prop = meta.get("property")
        if meta.get("detected_by_own_property") and prop:
            out.append(P("seed-" + sid, prop, "seeded/%s/patch.diff" % sid, meta.get("detected_by", {}).get(prop) or None,
                         note="independently seeded change"))
    return out


def all_mutants():
    drop = {"c18-zero-test-dot", "hs-module-memo-used", "c01-abe-no-unswap", "c07-rk4-other-order4", "c07-rk45-A", "c07-erk-two-steps-per-interval", "c07-packer-offset"}
    ms = [m for m in c05() + c06() + c07() + c07_specialised() + round8() + c12() + c14() + c15() + extras() + generic_rules() + round3() + round5() + round6() + seeded() if m["id"] not in drop]
    return ms
