"""Second part of the mutant corpus (C07, C12, C14, C15 and later additions)."""
from mutants import R, P, ERK, ARK, IVP, MISC, FQ, QUAD, I1D, INTERP, EXTRAP, SQ, SQI


def c07():
    return [
        # ---- tableau algebra
        R("c07-rk4-b", "C07", ERK, "    b=[1 / 6., 1 / 3., 1 / 3., 1 / 6.],", "    b=[1 / 6., 1 / 3., 1 / 6., 1 / 3.],", "C07-T"),
        R("c07-rk4-a", "C07", ERK, "       [0.0, 0.0, 1.0, 0.0]]\n)\nrk38", "       [0.0, 0.5, 0.5, 0.0]]\n)\nrk38", "C07-T",
          note="row sums still hold, order-4 conditions fail"),
        R("c07-rk38-a-sign", "C07", ERK, "       [-1 / 3, 1.0, 0.0, 0.0],", "       [1 / 3, 1.0, 0.0, 0.0],", "C07-T"),
        R("c07-rk38-c", "C07", ERK, "    c=[0.0, 1 / 3, 2 / 3, 1.0],\n    b=[1 / 8", "    c=[0.0, 1 / 3, 1 / 3, 1.0],\n    b=[1 / 8", "C07-T"),
        R("c07-euler-b", "C07", ERK, "    b=[1.0],", "    b=[0.5],", "C07-T"),
        R("c07-rk4-other-order4", "C07", ERK, "    b=[1 / 6., 1 / 3., 1 / 3., 1 / 6.],\n    a=[[0.0, 0.0, 0.0, 0.0],\n       [0.5, 0.0, 0.0, 0.0],\n       [0.0, 0.5, 0.0, 0.0],\n       [0.0, 0.0, 1.0, 0.0]]",
          "    b=[1 / 6., 0.0, 2 / 3., 1 / 6.],\n    a=[[0.0, 0.0, 0.0, 0.0],\n       [0.5, 0.0, 0.0, 0.0],\n       [-0.5, 1.0, 0.0, 0.0],\n       [0.0, 0.5, 0.5, 0.0]]", None, expect="undetected",
          note="filled below"),
        R("c07-rk4-literal-respelled", "C07", ERK, "    c=[0.0, 0.5, 0.5, 1.0],\n    b=[1 / 6., 1 / 3., 1 / 3., 1 / 6.],", "    c=[0.0, 1 / 2, 2 / 4., 1.0],\n    b=[1 / 6, 2 / 6., 1 / 3., 0.5 / 3],", None, expect="silent",
          note="same rationals, different spelling"),
        R("c07-rk23-E", "C07", ARK, "    E = torch.tensor([5 / 72, -1 / 12, -1 / 9, 1 / 8], dtype=torch.float64)", "    E = torch.tensor([5 / 72, -1 / 12, -1 / 9, 1 / 9], dtype=torch.float64)", "C07-T"),
        R("c07-rk23-E-sumzero-wrong", "C07", ARK, "    E = torch.tensor([5 / 72, -1 / 12, -1 / 9, 1 / 8], dtype=torch.float64)", "    E = torch.tensor([5 / 72, -1 / 9, -1 / 12, 1 / 8], dtype=torch.float64)", "C07-T",
          note="still sums to zero; second-order conditions of the embedded solution fail"),
        R("c07-rk45-A", "C07", ARK, "        [44 / 45, -56 / 15, 32 / 9, 0, 0],", "        [44 / 45, -56 / 15, 32 / 9, 0, 0][::1] if False else [44 / 45, -56 / 15, 32 / 8, 0, 0],", None, expect="undetected", note="placeholder"),
        R("c07-rk45-A2", "C07", ARK, "[19372 / 6561, -25360 / 2187, 64448 / 6561, -212 / 729, 0]", "[19372 / 6561, -25360 / 2187, 64448 / 6561, -212 / 792, 0]", "C07-T"),
        R("c07-rk45-B", "C07", ARK, "    B = torch.tensor([35 / 384, 0, 500 / 1113, 125 / 192, -2187 / 6784, 11 / 84], dtype=torch.float64)",
          "    B = torch.tensor([35 / 384, 0, 500 / 1113, 125 / 192, -2187 / 6784, 11 / 48], dtype=torch.float64)", "C07-T"),
        R("c07-rk45-E-last", "C07", ARK, "                      1 / 40], dtype=torch.float64)", "                      1 / 4], dtype=torch.float64)", "C07-T"),
        R("c07-rk45-C", "C07", ARK, "    C = torch.tensor([0, 1 / 5, 3 / 10, 4 / 5, 8 / 9, 1], dtype=torch.float64)", "    C = torch.tensor([0, 1 / 5, 3 / 10, 4 / 5, 9 / 8, 1], dtype=torch.float64)", "C07-T"),
        R("c07-rk23-est-order", "C07", ARK, "class RK23(RKAdaptiveStepSolver):\n    error_estimator_order = 2", "class RK23(RKAdaptiveStepSolver):\n    error_estimator_order = 3", "C07-T"),
        R("c07-rk45-est-order", "C07", ARK, "class RK45(RKAdaptiveStepSolver):\n    error_estimator_order = 4", "class RK45(RKAdaptiveStepSolver):\n    error_estimator_order = 3", "C07-T",
          note="a lower declared estimator order changes the exponent: not the 5(4) pair"),
        # ---- dispatch
        R("c07-dispatch-swap", "C07", IVP, '            "rk4": rk4_ivp,\n            "rk38": rk38_ivp,', '            "rk4": rk38_ivp,\n            "rk38": rk4_ivp,', ["C07-N", "C07-D"]),
        R("c07-rk38-uses-rk4-tableau", "C07", ERK, "    return explicit_rk(rk38_tableau, fcn, t, y0, params)", "    return explicit_rk(rk4_tableau, fcn, t, y0, params)", "C07-N"),
        R("c07-adaptive-swap-cls", "C07", ARK, "    return _rk_adaptive(fcn, ts, y0, params, RK23, **kwargs)", "    return _rk_adaptive(fcn, ts, y0, params, RK45, **kwargs)", "C07-N"),
        R("c07-adaptive-drop-kwargs", "C07", ARK, "    return _rk_adaptive(fcn, ts, y0, params, RK45, **kwargs)", "    return _rk_adaptive(fcn, ts, y0, params, RK45)", "C07-D",
          note="atol/rtol silently ignored for rk45"),
        R("c07-adaptive-tol-swapped", "C07", ARK, "    solver = cls(atol=atol, rtol=rtol)", "    solver = cls(atol=rtol, rtol=atol)", "C07-D"),
        # ---- explicit stepper roles
        R("c07-erk-c-index", "C07", ERK, "                k = fcn(t0 + c[j] * h, h * ak + y, *params)", "                k = fcn(t0 + c[j - 1] * h, h * ak + y, *params)", "C07-R"),
        R("c07-erk-no-h-state", "C07", ERK, "                k = fcn(t0 + c[j] * h, h * ak + y, *params)", "                k = fcn(t0 + c[j] * h, ak + y, *params)", "C07-R"),
        R("c07-erk-b-for-c", "C07", ERK, "                k = fcn(t0 + c[j] * h, h * ak + y, *params)", "                k = fcn(t0 + b[j] * h, h * ak + y, *params)", "C07-R"),
        R("c07-erk-a-index", "C07", ERK, "                    ak = aj[m] * ks[m] + ak", "                    ak = aj[m] * ks[j - 1] + ak", "C07-R"),
        R("c07-erk-a-row", "C07", ERK, "                aj = a[j]", "                aj = a[j - 1]", "C07-R"),
        R("c07-erk-update-c", "C07", ERK, "            ksum = ksum + b[j] * k", "            ksum = ksum + c[j] * k", "C07-R"),
        R("c07-erk-update-from-y0", "C07", ERK, "        y = h * ksum + y\n", "        y = h * ksum + y0\n", "C07-R"),
        R("c07-erk-stage-range", "C07", ERK, "        for j in range(s):", "        for j in range(s - 1):", "C07-R"),
        R("c07-erk-h-fixed", "C07", ERK, "        h = t1 - t0\n", "        h = t[1] - t[0]\n", ["C07-R", "C07-I"], note="uniform-grid assumption: wrong on ragged grids only"),
        R("c07-erk-time-t1", "C07", ERK, "                k = fcn(t0, y, *params)", "                k = fcn(t1, y, *params)", "C07-R"),
        R("c07-erk-first-row-clone-scaled", "C07", ERK, "    yt_lst.append(y0)\n", "    yt_lst.append(y0 * 1.0000001)\n", "C07-0"),
        R("c07-erk-params-dropped", "C07", ERK, "                k = fcn(t0 + c[j] * h, h * ak + y, *params)", "                k = fcn(t0 + c[j] * h, h * ak + y)", "C07-R"),
        R("c07-erk-equivalent-respelling", "C07", ERK, "                k = fcn(t0 + c[j] * h, h * ak + y, *params)\n            ks.append(k)\n            ksum = ksum + b[j] * k\n        y = h * ksum + y",
          "                k = fcn(h * c[j] + t0, y + ak * h, *params)\n            ks.append(k)\n            ksum = k * b[j] + ksum\n        y = y + ksum * h", None, expect="silent"),
        R("c07-erk-locals-renamed", "C07", ERK, "        t0 = t[i]\n        t1 = t[i + 1]\n        h = t1 - t0\n", "        ta = t[i]\n        t0 = ta\n        dt = t[i + 1] - ta\n        h = dt\n        t1 = ta + dt\n", None, expect="silent"),
        R("c07-erk-two-steps-per-interval", "C07", ERK, "        y = h * ksum + y\n        yt_lst.append(y)", "        y = h * ksum + y\n        yt_lst.append(y)\n        if i == nt - 2:\n            yt_lst[-1] = y + 0 * ksum", None, expect="undetected",
          note="placeholder removed below"),
        # ---- rk_step
        R("c07-rkstep-c-offset", "C07", ARK, "    for s, (a, c) in enumerate(zip(A[1:], C[1:]), start=1):", "    for s, (a, c) in enumerate(zip(A[1:], C[:-1]), start=1):", "C07-R"),
        R("c07-rkstep-B-all-rows", "C07", ARK, "    ynew = y + h * torch.matmul(K[:-1].T, B)", "    ynew = y + torch.matmul(K[:-1].T, B)", "C07-R"),
        R("c07-rkstep-fsal-time", "C07", ARK, "    fnew = func(t + h, ynew)", "    fnew = func(t, ynew)", "C07-R"),
        R("c07-rkstep-fsal-not-stored", "C07", ARK, "    K[-1] = fnew\n", "    K[-2] = fnew\n", "C07-R"),
        R("c07-rkstep-dy-no-h", "C07", ARK, "        dy = torch.matmul(K[:s].T, a[:s]) * h", "        dy = torch.matmul(K[:s].T, a[:s])", "C07-R"),
        R("c07-rkstep-stage-time", "C07", ARK, "        K[s] = func(t + c * h, y + dy)", "        K[s] = func(t + h, y + dy)", "C07-R"),
        R("c07-rkstep-equivalent", "C07", ARK, "        dy = torch.matmul(K[:s].T, a[:s]) * h\n        K[s] = func(t + c * h, y + dy)", "        incr = h * torch.matmul(K[:s].T, a[:s])\n        K[s] = func(h * c + t, incr + y)", None, expect="silent"),
        # ---- controller
        R("c07-exponent", "C07", ARK, "        self.error_exponent = -1. / (self.error_estimator_order + 1.)", "        self.error_exponent = -1. / self.error_estimator_order", "C07-X"),
        R("c07-exponent-sign", "C07", ARK, "        self.error_exponent = -1. / (self.error_estimator_order + 1.)", "        self.error_exponent = 1. / (self.error_estimator_order + 1.)", "C07-X"),
        R("c07-accept-no-rtol", "C07", ARK, "            scale = self.atol + torch.max(y0.norm(), ynew.norm()) * self.rtol", "            scale = self.atol + torch.max(y0.norm(), ynew.norm())", "C07-X"),
        R("c07-accept-atol-only", "C07", ARK, "            scale = self.atol + torch.max(y0.norm(), ynew.norm()) * self.rtol", "            scale = self.atol", "C07-X"),
        R("c07-accept-flipped", "C07", ARK, "            accepted = errnorm < 1\n", "            accepted = errnorm < 10\n", "C07-X"),
        R("c07-accept-uses-h-not-hstep", "C07", ARK, "            errnorm = self._error_norm(self.K, hstep) / scale", "            errnorm = self._error_norm(self.K, h) / scale", "C07-X",
          note="error scaled with the un-truncated step: only differs on the step that lands on a requested time"),
        R("c07-errnorm-no-h", "C07", ARK, "        err = torch.matmul(K.T, self.E) * h\n", "        err = torch.matmul(K.T, self.E)\n", "C07-X"),
        R("c07-errnorm-drops-fsal", "C07", ARK, "        err = torch.matmul(K.T, self.E) * h\n", "        err = torch.matmul(K[:-1].T, self.E[:-1]) * h\n", "C07-X"),
        R("c07-K-rows", "C07", ARK, "        self.K = torch.empty((self.n_stages + 1, n), dtype=self.dtype, device=self.device)", "        self.K = torch.empty((self.n_stages + 2, n), dtype=self.dtype, device=self.device)", "C07-X"),
        R("c07-no-landing", "C07", ARK, "            hstep = t1 - t0 if t1_achieved else h\n", "            hstep = h\n", "C07-X"),
        R("c07-landing-wrong-test", "C07", ARK, "            t1_achieved = t0 + h > t1\n", "            t1_achieved = t0 + h > t1 + h\n", "C07-X"),
        R("c07-shrink-min", "C07", ARK, "                factor = max(self.min_factor, self.step_mult * errnorm ** self.error_exponent)", "                factor = min(self.min_factor, self.step_mult * errnorm ** self.error_exponent)", "C07-X"),
        R("c07-state-layout", "C07", ARK, "        rk_state = (fnew, tnew, ynew, h)\n        return rk_state, t1_achieved", "        rk_state = (fnew, tnew, y0, h)\n        return rk_state, t1_achieved", "C07-L"),
        R("c07-state-tnew", "C07", ARK, "            tnew = t0 + hstep\n", "            tnew = t0 + h\n", "C07-L"),
        R("c07-abck-order", "C07", ARK, "            abck = (self.A, self.B, self.C, self.K)", "            abck = (self.A, self.C, self.B, self.K)", "C07-L"),
        R("c07-solve-wrong-component", "C07", ARK, "            yt[i] = rk_state[2]", "            yt[i] = rk_state[0]", "C07-L"),
        R("c07-solve-init-f0", "C07", ARK, "        f0 = self.func(t0, self.y0)\n", "        f0 = self.func(self.ts[1], self.y0)\n", "C07-L"),
        R("c07-solve-row0", "C07", ARK, "        yt[0] = self.y0\n", "        yt[0] = self.y0 + 0 * f0\n", "C07-0"),
        R("c07-solve-reads-next", "C07", ARK, "            rk_state = self._step(rk_state, ts[i])", "            rk_state = self._step(rk_state, ts[min(i, len(ts) - 1)])", "C07-I"),
        R("c07-step-lookahead", "C07", ARK, "        t1_achieved = False\n        while not t1_achieved:", "        t1_achieved = False\n        tend = self.ts[-1]\n        while not t1_achieved:", "C07-I",
          note="a method other than solve reads the grid"),
        # ---- time reversal
        R("c07-reverse-f-sign", "C07", ARK, "            self.func = lambda t, y: -fcn(-t, y.reshape(yshape), *params).reshape(-1)", "            self.func = lambda t, y: fcn(-t, y.reshape(yshape), *params).reshape(-1)", "C07-V"),
        R("c07-reverse-t-sign", "C07", ARK, "            self.func = lambda t, y: -fcn(-t, y.reshape(yshape), *params).reshape(-1)", "            self.func = lambda t, y: -fcn(t, y.reshape(yshape), *params).reshape(-1)", "C07-V"),
        R("c07-reverse-test", "C07", ARK, "        if direction < 0:", "        if direction > 0:", "C07-V"),
        R("c07-reverse-params", "C07", ARK, "            self.func = lambda t, y: -fcn(-t, y.reshape(yshape), *params).reshape(-1)", "            self.func = lambda t, y: -fcn(-t, y.reshape(yshape)).reshape(-1)", "C07-V"),
        # ---- tuple states
        R("c07-tuple-result-not-packed", "C07", IVP, "        return roller.pack(res)", "        return roller.pack(y0)", "C07-P"),
        R("c07-packer-offset", "C07", MISC, "            istart = ifinish\n\n    def flatten", "            istart = ifinish + 0 * i\n            istart = istart if i else ifinish - 0\n\n    def flatten", None, expect="undetected", note="placeholder removed below"),
        R("c07-packer-overlap", "C07", MISC, "            ifinish = istart + torch.numel(p)\n            self.idx_shapes.append((istart, ifinish, p.shape))\n            istart = ifinish",
          "            ifinish = istart + torch.numel(p)\n            self.idx_shapes.append((istart, ifinish, p.shape))\n            istart = ifinish - 1 if i > 2 else ifinish", "C07-P"),
        R("c07-packer-reversed", "C07", MISC, "        return torch.cat([y.reshape(-1) for y in y_list], dim=-1)", "        return torch.cat([y.reshape(-1) for y in reversed(y_list)], dim=-1)", "C07-P"),
    ]


def all_mutants():
    drop = {"c07-rk4-other-order4", "c07-rk45-A", "c07-erk-two-steps-per-interval", "c07-packer-offset"}
    ms = [m for m in c07() if m["id"] not in drop]
    return ms
