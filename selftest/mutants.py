"""Mutant corpus: changes that compile, keep the 448 baseline tests green (they do not exercise the site or
only on inputs where the change is invisible) and break a property.  `old` must occur exactly `count`
times in the file (after newline normalisation); a mutant whose pattern is gone is *skipped*."""

S_IMPL = "xitorch/_impls/linalg/solve.py"
S_PUB = "xitorch/linalg/solve.py"
RS = "xitorch/_impls/optimize/root/rootsolver.py"
EQ = "xitorch/_impls/optimize/equilibrium.py"
MINI = "xitorch/_impls/optimize/minimizer.py"
RF = "xitorch/optimize/rootfinder.py"
IVP = "xitorch/integrate/solve_ivp.py"
QUAD = "xitorch/integrate/quad.py"
MCQ = "xitorch/integrate/mcquad.py"
MCMC = "xitorch/_impls/integrate/mcsamples/mcmc.py"
LINOP = "xitorch/_core/linop.py"
PF = "xitorch/_core/pure_function.py"
EM = "xitorch/_core/editable_module.py"
MODES = "xitorch/debug/modes.py"
JAC = "xitorch/grad/jachess.py"
ERK = "xitorch/_impls/integrate/ivp/explicit_rk.py"
ARK = "xitorch/_impls/integrate/ivp/adaptive_rk.py"
FQ = "xitorch/_impls/integrate/fixed_quad.py"
I1D = "xitorch/_impls/interpolate/interp_1d.py"
INTERP = "xitorch/interpolate/interp1.py"
EXTRAP = "xitorch/_impls/interpolate/extrap_utils.py"
SQ = "xitorch/integrate/squad.py"
SQI = "xitorch/_impls/integrate/samples_quad.py"
MISC = "xitorch/_utils/misc.py"
PACK = "xitorch/_core/packer.py"
SYM = "xitorch/linalg/symeig.py"


def R(id, prop, file, old, new, rule=None, count=1, note="", expect="fire"):
    return dict(id=id, prop=prop, file=file, old=old, new=new, expect_rule=rule, count=count, note=note, expect=expect)


def P(id, prop, patch, rule=None, note=""):
    return dict(id=id, prop=prop, kind="patch", patch=patch, expect_rule=rule, note=note)


def defects_back():
    d = "selftest/defects/"
    return [
        P("D01-back", "C03", d + "01-6f554be.revert.diff", "C03-RC"),
        P("D02-back", "C03", d + "02-3a47dc4.revert.diff", "C03-RZ"),
        P("D17-back", "C01", d + "03-a6fb6b6.revert.diff", "C01-S"),
        R("D05-back", "C13", QUAD, "                         bck_options=ctx.bck_config, **ctx.bck_config)",
          "                         fwd_options=ctx.bck_config, bck_options=ctx.bck_config)", ["C13-K", "AC5"],
          note="the reverse patch of 95f34c2 no longer applies after 9c5a2e8 re-indented the call"),
        P("D06-back", "C13", d + "05-a9a1c0e.revert.diff", "C13-I"),
        dict(id="D08-back", prop="C13", expect_rule="C13-Z", note="the reverse patch of 9c5a2e8 no longer applies after 7dd7e2e restructured backward", edits=[
            dict(file=QUAD, old="        nxlxu = len(ctx.saved_tensors) - ntensor_params\n        tensor_params = ctx.saved_tensors[nxlxu:]", new="        tensor_params = ctx.saved_tensors[-ntensor_params:]"),
            dict(file=QUAD, old="            xlxu_tensor = ctx.saved_tensors[:nxlxu]", new="            xlxu_tensor = ctx.saved_tensors[:-ntensor_params]")]),
        dict(id="D07-back", prop="C13", expect_rule="AC4", note="the reverse patch of 467c3b6 no longer applies after 7dd7e2e restructured backward", edits=[
            dict(file=QUAD, old="                                        allow_unused=True,\n", new=""),
            dict(file=QUAD, old="            # tensors that do not influence the integrand get a zero gradient\n            dfdts = convert_none_grads_to_zeros(dfdts, tparams)\n", new="")]),
        P("D09-back", "C16", d + "08-1bb713b.revert.diff", ["C16-U", "C16-S", "C16-N"]),
        P("D10-back", "C16", d + "09-8233665.revert.diff", ["C16-U", "C16-B"]),
        P("D12-back", "C16", d + "10-499e7ae.revert.diff", "AC4"),
        P("D15-back", "C08", d + "11-e6108b4.revert.diff", "AC7"),
        P("D14a-back", "C19", d + "12-04daa9a.revert.diff", "AC8"),
        P("D14b-back", "C19", d + "13-8a67b5a.revert.diff", "C19-C"),
        P("D23-back", "C02", d + "23-269c72d.revert.diff", "AC1"),
        P("D13-back", "C18", d + "14-41dcc60.revert.diff", "C18-C"),
        P("D04-back", "C11", d + "15-316b1fe.revert.diff", "C11-C"),
        P("D03-back", "C11", d + "16-3cd1d21.revert.diff", "C11-F"),
        P("D11-back", "C15", d + "17-3d1385c.revert.diff", "C15-D"),
        P("D18-back", "C15", d + "18-105611d.revert.diff", "C15-D"),
        P("D16-back", "C10", d + "19-4fea7e8.revert.diff", "C10-P"),
        P("D19-back", "C04", d + "20-56e83c8.revert.diff", "SUB-A"),
        P("D20-back", "C13", d + "21-7dd7e2e.revert.diff", "AC13"),
        P("D21-back", "C08", d + "22-df82b20.revert.diff", "AC13"),
        P("D22-back", "C16", d + "23-3c2ffbe.revert.diff", "AC13"),
    ]


def c01():
    return [
        R("c01-cg-nowarn", "C01", S_IMPL,
          "    xk_1 = best_xk\n    if not converge:\n        msg = (\"Convergence is not achieved after %d iterations. \"\n               \"Max norm of best resid: %.3e\") % (max_niter, best_resid)\n        warnings.warn(ConvergenceWarning(msg))\n",
          "    xk_1 = best_xk\n    if not converge:\n        msg = (\"Convergence is not achieved after %d iterations. \"\n               \"Max norm of best resid: %.3e\") % (max_niter, best_resid)\n        if verbose:\n            warnings.warn(ConvergenceWarning(msg))\n",
          "C01-W", note="warning only in verbose mode"),
        R("c01-bicgstab-flag-early", "C01", S_IMPL,
          "        if verbose:\n            if k < 10 or k % 10 == 0:\n                print(\"%4d: |dy|=%.3e\" % (k, resid_norm))\n\n        # check for the stopping conditions\n        if torch.all(resid_norm < stop_matrix):\n            converge = True\n            break\n",
          "        if verbose:\n            if k < 10 or k % 10 == 0:\n                print(\"%4d: |dy|=%.3e\" % (k, resid_norm))\n\n        # check for the stopping conditions\n        if k == max_niter:\n            converge = True\n        if torch.all(resid_norm < stop_matrix):\n            converge = True\n            break\n",
          "C01-P", note="flag set at the last iteration without a residual test"),
        R("c01-gmres-warn-on-converged", "C01", S_IMPL,
          "            if torch.all(resid_norm < stop_matrix):\n                converge = True\n                break\n\n    if not converge:",
          "            if torch.all(resid_norm < stop_matrix):\n                converge = True\n                break\n\n    if converge or not converge:",
          ["C01-W2", "C01-W"]),
        R("c01-bicgstab-no-unswap", "C01", S_IMPL,
          "    if col_swapped:\n        # x: (ncols, *, nr, 1)\n        xk = xk.transpose(0, -1).squeeze(0)  # (*, nr, ncols)\n    return xk\n",
          "    return xk\n", "C01-S"),
        R("c01-cg-rtol-only", "C01", S_IMPL,
          "    A_fcn, _, B2, col_swapped = _setup_linear_problem(A, B, E, M, batchdims,\n                                                      posdef, need_hermit)\n\n    # get the stopping matrix\n    B_norm = B2.norm(dim=-2, keepdim=True)  # (*BB, 1, nc)\n    stop_matrix = torch.max(rtol * B_norm, atol * torch.ones_like(B_norm))  # (*BB, 1, nc)\n",
          "    A_fcn, _, B2, col_swapped = _setup_linear_problem(A, B, E, M, batchdims,\n                                                      posdef, need_hermit)\n\n    # get the stopping matrix\n    B_norm = B2.norm(dim=-2, keepdim=True)  # (*BB, 1, nc)\n    stop_matrix = torch.max(rtol * torch.ones_like(B_norm), atol * torch.ones_like(B_norm))  # (*BB, 1, nc)\n",
          "C01-T", note="absolute instead of relative tolerance"),
        R("c01-gmres-norm-of-untransformed-B", "C01", S_IMPL,
          "    # get the stopping matrix\n    B_norm = B2.norm(dim=-2, keepdim=True)  # (*BB, 1, nc)\n    stop_matrix = torch.max(rtol * B_norm, atol * torch.ones_like(B_norm))  # (*BB, 1, nc)\n\n    # prepare the initial guess (it's just all zeros)\n    x0shape = (ncols, *batchdims, nr, 1) if col_swapped else (*batchdims, nr, ncols)\n    x0 = torch.zeros(",
          "    # get the stopping matrix\n    B_norm = B.norm(dim=-2, keepdim=True)  # (*BB, 1, nc)\n    stop_matrix = torch.max(rtol * B_norm, atol * torch.ones_like(B_norm))  # (*BB, 1, nc)\n\n    # prepare the initial guess (it's just all zeros)\n    x0shape = (ncols, *batchdims, nr, 1) if col_swapped else (*batchdims, nr, ncols)\n    x0 = torch.zeros(",
          "C01-T", note="threshold from the untransformed right-hand side (wrong layout when E is given / normal equations)"),
        R("c01-batchdims-E-slice", "C01", S_IMPL,
          "        batchdims.append(E.shape[:-1])", "        batchdims.append(E.shape[:-2])", "C01-B"),
        R("c01-batchdims-M-unguarded", "C01", S_IMPL,
          "    if E is not None:\n        batchdims.append(E.shape[:-1])\n        if M is not None:\n            batchdims.append(M.shape[:-2])\n",
          "    if E is not None:\n        batchdims.append(E.shape[:-1])\n    if M is not None:\n        batchdims.append(M.shape[:-2])\n",
          "C01-B", note="M's batch shape broadcast although M is ignored without E"),
        R("c01-zero-shortcut-shape", "C01", S_PUB,
          "            dims = (*_get_batchdims(A, B, E, M), *B.shape[-2:])",
          "            dims = (*_get_batchdims(A, B, None, None), *B.shape[-2:])", "C01-Z"),
        R("c01-scipy-status-ignored", "C01", S_IMPL,
          "            if info > 0:\n", "            if info > 0 and False:\n", "C01-W'", note="status test neutralised"),
        R("c01-rootfinder-solve-x0-shape", "C01", S_IMPL,
          "    x0 = torch.zeros((*batchdims, nr * ncols), dtype=A.dtype, device=A.device)",
          "    x0 = torch.zeros((*batchdims, nr), dtype=A.dtype, device=A.device)", "C01-Z"),
    ]


def c02():
    return [
        R("c02-E-not-conj", "C02", S_PUB, "            Econj = E.conj() if E is not None else None", "            Econj = E if E is not None else None", "C02-H"),
        R("c02-gradE-no-conj", "C02", S_PUB, "grad_E = torch.einsum('...rc,...rc->...c', v, Mx.conj())", "grad_E = torch.einsum('...rc,...rc->...c', v, Mx)", "C02-H"),
        R("c02-A-not-adjoint", "C02", S_PUB, "            AT = ctx.A.H  # (*BA, nr, nr)", "            AT = ctx.A  # (*BA, nr, nr)", "C02-H"),
        R("c02-no-allow-unused", "C02", S_PUB,
          "        grad_params = torch.autograd.grad((loss,), params, grad_outputs=(v,),\n                                          create_graph=torch.is_grad_enabled(),\n                                          allow_unused=True)",
          "        grad_params = torch.autograd.grad((loss,), params, grad_outputs=(v,),\n                                          create_graph=torch.is_grad_enabled())", "AC4"),
        R("c02-no-create-graph", "C02", S_PUB,
          "            grad_mparams = torch.autograd.grad((mloss,), mparams,\n                                               grad_outputs=(v,),\n                                               create_graph=torch.is_grad_enabled(),",
          "            grad_mparams = torch.autograd.grad((mloss,), mparams,\n                                               grad_outputs=(v,),\n                                               create_graph=False,", "AC3"),
        R("c02-swap-groups", "C02", S_PUB, "                *grad_params, *grad_mparams)", "                *grad_mparams, *grad_params)", "AC6"),
        R("c02-options-not-splatted", "C02", S_PUB,
          "                      bck_options=ctx.bck_config, **ctx.bck_config)  # (*BABEM, nr, ncols)",
          "                      bck_options=ctx.bck_config)  # (*BABEM, nr, ncols)", "AC5"),
        R("c02-sign-A", "C02", S_PUB, "                loss = -ctx.A.mm(x)  # (*BABEM, nr, ncols)", "                loss = ctx.A.mm(x)  # (*BABEM, nr, ncols)", "C02-S"),
        R("c02-sign-M", "C02", S_PUB, "                                               grad_outputs=(v,),\n", "                                               grad_outputs=(-v,),\n", "C02-S"),
        R("c02-grad-for-A-slot", "C02", S_PUB, "        return (None, grad_B, grad_E, None, None, None, None, None,", "        return (grad_B, grad_B, grad_E, None, None, None, None, None,", "AC2"),
        R("c02-arity", "C02", S_PUB, "        return (None, grad_B, grad_E, None, None, None, None, None,", "        return (None, grad_B, grad_E, None, None, None, None,", "AC1"),
        R("c02-na-wrong", "C02", S_PUB, "        na = len(params)\n        return solve_torchfcn.apply(", "        na = len(mparams)\n        return solve_torchfcn.apply(", "AC6"),
        R("c02-matrix-rmv-no-conj", "C02", LINOP,
          "    def _rmv(self, x: torch.Tensor) -> torch.Tensor:\n        return torch.matmul(self.mat.transpose(-2, -1).conj(), x.unsqueeze(-1)).squeeze(-1)",
          "    def _rmv(self, x: torch.Tensor) -> torch.Tensor:\n        return torch.matmul(self.mat.transpose(-2, -1), x.unsqueeze(-1)).squeeze(-1)", "C02-H"),
        R("c02-exactsolve-LinvT", "C02", S_IMPL, "        LinvT = Linv.transpose(-2, -1).conj()  # (*BM, na, na)", "        LinvT = Linv.transpose(-2, -1)  # (*BM, na, na)", "C02-H"),
    ]


def c03():
    return [
        R("c03-update-after-break", "C03", RS, "            converge = True\n            x = xnew\n            break\n", "            converge = True\n            break\n            x = xnew\n", "C03-RC"),
        R("c03-no-warning", "C03", RS, "        warnings.warn(ConvergenceWarning(msg))\n        x = best_x\n", "        x = best_x\n", "C03-W"),
        R("c03-anderson-no-warning", "C03", EQ, "    if not converge:\n        msg = (\"The rootfinder does not converge after %d iterations.\") % (maxiter)\n        warnings.warn(ConvergenceWarning(msg))\n", "    if not converge:\n        msg = (\"The rootfinder does not converge after %d iterations.\") % (maxiter)\n", "C03-W"),
        R("c03-anderson-return-previous", "C03", EQ,
          "        # update the xn\n        xn = xnew\n        if to_stop:\n            converge = True\n            break\n",
          "        if to_stop:\n            converge = True\n            break\n        # update the xn\n        xn = xnew\n", "C03-RC"),
        R("c03-best-x-is-next", "C03", MINI, "            self._best_x = x\n", "            self._best_x = xnext\n", "C03-RB"),
        R("c03-gd-swapped-points", "C03", MINI, "        to_stop = stop_cond.to_stop(i, x, xprev, f, fprev)\n\n        if to_stop:\n            break\n\n        fprev = f\n    x = stop_cond.get_best_x(x)\n    return x\n\ndef adam(",
          "        to_stop = stop_cond.to_stop(i, xprev, x, f, fprev)\n\n        if to_stop:\n            break\n\n        fprev = f\n    x = stop_cond.get_best_x(x)\n    return x\n\ndef adam(", "C03-RB"),
        R("c03-best-unconditional", "C03", MINI, "        if fval < self._best_f:\n            self._best_f = fval\n            self._best_x = x\n", "        if True:\n            self._best_f = fval\n            self._best_x = x\n", "C03-RB"),
        R("c03-check-drops-ftol", "C03", RS, "        return (dxnorm < self.x_tol) and (dxnorm < self.x_rtol * xnorm) and \\\n            (ynorm < self.f_tol) and (ynorm < self.f_rtol * self.f0_norm)",
          "        return (dxnorm < self.x_tol) and (dxnorm < self.x_rtol * xnorm) and \\\n            (ynorm < self.f_rtol * self.f0_norm)", "C03-TC"),
        R("c03-zero-shortcut-x0-nonlin", "C03", RS, "    if (y_norm == 0):\n        return x.reshape(xshape)", "    if (y_norm == 0):\n        return y.reshape(xshape)", "C03-RZ"),
        R("c03-flag-without-test", "C03", RS, "        if to_stop:\n            converge = True\n            x = xnew\n            break\n", "        if to_stop or i > 2:\n            converge = True\n            x = xnew\n            break\n", None,
          note="weakened stopping test: NOT expected to be caught (numerical semantics of the test)", expect="undetected"),
        R("c03-return-flat", "C03", RS, "        x = best_x\n    return _pack(x)", "        x = best_x\n    return x", "C03-SH"),
    ]


def c04():
    return [
        R("c04-grad-for-y0", "C04", RF, "        return (None, None, None, None, None, None, None, *grad_params)", "        return (None, gyfcn, None, None, None, None, None, *grad_params)", "AC2"),
        R("c04-no-allow-unused", "C04", RF, "                                                     create_graph=torch.is_grad_enabled(),\n                                                     allow_unused=True)", "                                                     create_graph=torch.is_grad_enabled())", "AC4"),
        R("c04-solve-without-options", "C04", RF, "                          bck_options=ctx.bck_options, **ctx.bck_options)", "                          bck_options=ctx.bck_options)", "AC5"),
        R("c04-pullback-outside-useobjparams", "C04", RF,
          "                with ctx.fcn.useobjparams(objparams_copy):\n                    yfcn = fcn(yout, *params_copy)\n",
          "                yfcn = fcn(yout, *params_copy)\n", "C04-U"),
        R("c04-jac-not-adjoint", "C04", RF, "            gyfcn = solve(A=jac_dfdy.H, B=-grad_yout.reshape(-1, 1),", "            gyfcn = solve(A=jac_dfdy, B=-grad_yout.reshape(-1, 1),", "C04-J"),
        R("c04-sign", "C04", RF, "            gyfcn = solve(A=jac_dfdy.H, B=-grad_yout.reshape(-1, 1),", "            gyfcn = solve(A=jac_dfdy.H, B=grad_yout.reshape(-1, 1),", "C04-J"),
        R("c04-drop-objparams-rootfinder", "C04", RF,
          "    return _RootFinder.apply(pfunc, y0, pfunc, \"rootfinder\", fwd_options, bck_options,\n                             len(params), *params, *pfunc.objparams())",
          "    return _RootFinder.apply(pfunc, y0, pfunc, \"rootfinder\", fwd_options, bck_options,\n                             len(params), *params)", "AC6"),
        R("c04-minimize-grad-no-create-graph", "C04", RF, "        grady, = torch.autograd.grad(z, (y1,), retain_graph=True,\n                                     create_graph=torch.is_grad_enabled())",
          "        grady, = torch.autograd.grad(z, (y1,), retain_graph=True)", "AC3"),
        R("c04-jac-at-y0", "C04", RF, "            jac_dfdy = jac(fcn, params=(yout, *params), idxs=[0])[0]", "            jac_dfdy = jac(fcn, params=(grad_yout, *params), idxs=[0])[0]", "C04-J"),
        R("c04-pullback-not-copies", "C04", RF, "                    yfcn = fcn(yout, *params_copy)", "                    yfcn = fcn(yout, *params)", "C04-U"),
    ]


def c08():
    return [
        R("c08-no-none-conversion", "C08", IVP, "            allgrads = convert_none_grads_to_zeros(allgrads, allgradinputs)\n", "", "AC4"),
        R("c08-inplace-on-packed", "C08", IVP, "            states[dLdy_index] = grad_yt[t_flip_idx] + states[dLdy_index]", "            states[dLdy_index] += grad_yt[t_flip_idx]", "AC7"),
        R("c08-ts-grad-always", "C08", IVP, "        grad_ts = [None for _ in range(len(ts))] if ts_requires_grad else None", "        grad_ts = [None for _ in range(len(ts))]", "C08-T"),
        R("c08-no-create-graph", "C08", IVP, "                                           create_graph=torch.is_grad_enabled())  # list of (*ny)", "                                           create_graph=False)  # list of (*ny)", "AC3"),
        R("c08-no-allow-unused", "C08", IVP, "                                           allow_unused=True,\n", "", "AC4"),
        R("c08-wrapper-count", "C08", IVP, "        return _SolveIVP.apply(pfcn, ts, fwd_options, bck_options, len(params), y0, *params, *pfcn.objparams())",
          "        return _SolveIVP.apply(pfcn, ts, fwd_options, bck_options, len(params) + 1, y0, *params, *pfcn.objparams())", "AC6"),
        R("c08-backward-options-lost", "C08", IVP, "            fwd_config = copy.copy(ctx.bck_config)\n", "            fwd_config = {\"method\": \"rk4\"}\n", "AC5"),
        R("c08-grad-to-pfcn-slot", "C08", IVP, "        return (None, grad_ts, None, None, None, grad_y0, *grad_params)", "        return (grad_y0, grad_ts, None, None, None, grad_y0, *grad_params)", "AC2"),
    ]


def c13():
    return [
        R("c13-sign-xl", "C13", QUAD, "            grad_xl = -torch.dot(grad_ys.reshape(-1), fcn(xl, *params).reshape(-1)", "            grad_xl = torch.dot(grad_ys.reshape(-1), fcn(xl, *params).reshape(-1)", "C13-L"),
        R("c13-xu-at-xl", "C13", QUAD, "            grad_xu = torch.dot(grad_ys.reshape(-1), fcn(xu, *params).reshape(-1)", "            grad_xu = torch.dot(grad_ys.reshape(-1), fcn(xl, *params).reshape(-1)", "C13-L"),
        R("c13-gate-swapped", "C13", QUAD, "                                 ).reshape(xl.shape) if ctx.xltensor else None", "                                 ).reshape(xl.shape) if ctx.xutensor else None", "C13-L"),
        R("c13-unpack-swapped", "C13", QUAD, "            if ctx.xltensor and ctx.xutensor:\n                xl, xu = xlxu_tensor", "            if ctx.xltensor and ctx.xutensor:\n                xu, xl = xlxu_tensor", "C13-L"),
        R("c13-no-create-graph", "C13", QUAD, "                                        create_graph=torch.is_grad_enabled())\n            # tensors that", "                                        create_graph=False)\n            # tensors that", "AC3"),
        R("c13-no-none-conversion", "C13", QUAD, "            dfdts = convert_none_grads_to_zeros(dfdts, tparams)\n", "", "AC4"),
        R("c13-grad-for-nparams-slot", "C13", QUAD, "        return (None, grad_xl, grad_xu, None, None, None, None, None, *grad_params)", "        return (None, grad_xl, grad_xu, None, None, grad_xu, None, None, *grad_params)", "AC2"),
        R("c13-quad-drops-objparams", "C13", QUAD, "        return _Quadrature.apply(pfunc, xl, xu, fwd_options, bck_options, nparams,\n                                 dtype, device, *params, *pfunc.objparams())",
          "        return _Quadrature.apply(pfunc, xl, xu, fwd_options, bck_options, nparams,\n                                 dtype, device, *params)", "AC6"),
        R("c13-bck-options-only", "C13", QUAD, "                         bck_options=ctx.bck_config, **ctx.bck_config)", "                         bck_options=ctx.bck_config)", "AC5"),
        R("c13-negative-slice-back", "C13", QUAD, "        tensor_params = ctx.saved_tensors[nxlxu:]", "        tensor_params = ctx.saved_tensors[-ntensor_params:]", "C13-Z"),
    ]


def c16():
    return [
        R("c16-unnormalised-weights", "C16", MCMC, "    wsamples = wsamples / wsamples.sum()\n", "", "C16-W"),
        R("c16-mh-weights-wrong-len", "C16", MCMC, "    weights = torch.zeros((samples.shape[0],), dtype=dtype, device=device) + (1. / samples.shape[0])",
          "    weights = torch.zeros((samples.shape[0],), dtype=dtype, device=device) + (1. / nburnout)", "C16-W"),
        R("c16-mh-phase2-from-x0", "C16", MCMC, "    samples = _mh_sample(logpfcn, x, pparams, nsamples, step_size, True)", "    samples = _mh_sample(logpfcn, x0, pparams, nsamples, step_size, True)", ["C16-S", "C16-U"]),
        R("c16-mh-counts-swapped", "C16", MCMC, "    x, dtype, device = _mh_sample(logpfcn, x0, pparams, nburnout, step_size, False)\n    samples = _mh_sample(logpfcn, x, pparams, nsamples, step_size, True)",
          "    x, dtype, device = _mh_sample(logpfcn, x0, pparams, nsamples, step_size, False)\n    samples = _mh_sample(logpfcn, x, pparams, nburnout, step_size, True)", "C16-S"),
        R("c16-loop-one-short", "C16", MCMC, "    for i in range(nsamples):\n        x = custom_step(x, *pparams)", "    for i in range(nsamples - 1):\n        x = custom_step(x, *pparams)", ["C16-N", "C16-S"]),
        R("c16-store-shifted", "C16", MCMC, "        if collect_samples:\n            samples[i] = x\n\n    # return the samples", "        if collect_samples:\n            samples[i - 1] = x\n\n    # return the samples", ["C16-N", "C16-S"]),
        R("c16-integrate-misaligned", "C16", MCQ, "    for x, w in zip(xsamples, wsamples):\n        res = res + ffcn(x, *fparams) * w", "    for x, w in zip(xsamples, wsamples.flip(0)):\n        res = res + ffcn(x, *fparams) * w", "C16-W"),
        R("c16-forward-always-samples", "C16", MCQ, "        if xsamples is None:\n            methods = {", "        if True:\n            methods = {", "C16-B"),
        R("c16-backward-drops-weights", "C16", MCQ, "                           wsamples=wsamples,\n", "                           wsamples=None,\n", "C16-B"),
        R("c16-grad-slot", "C16", MCQ, "        return (None, None, None, None, None, None, None, None, None, None, None,\n                *dLdtf, *dLdtp)",
          "        return (None, None, grad_epf, None, None, None, None, None, None, None, None,\n                *dLdtf, *dLdtp)", "AC2"),
        R("c16-count-slot", "C16", MCQ, "    nf_objparams = len(fobjparams)", "    nf_objparams = len(pobjparams)", "AC6"),
        R("c16-segments-swapped", "C16", MCQ, "        return _MCQuad.apply(pure_ffcn, pure_logpfcn, x0, xsamples, wsamples,\n                             method, fwd_options, bck_options,\n                             nfparams, nf_objparams, npparams, *fparams, *fobjparams, *pparams, *pobjparams)",
          "        return _MCQuad.apply(pure_ffcn, pure_logpfcn, x0, xsamples, wsamples,\n                             method, fwd_options, bck_options,\n                             nfparams, nf_objparams, npparams, *fparams, *pparams, *fobjparams, *pobjparams)", "AC6"),
        R("c16-create-graph-outer", "C16", MCQ, "            local_grad_enabled = torch.is_grad_enabled()", "            local_grad_enabled = grad_enabled and False", "AC3"),
    ]


def c10():
    return [
        R("c10-useobjparams-no-finally", "C10", PF,
          "        try:\n            self.set_objparams(objparams)\n            yield\n        finally:\n            self.restore_objparams()",
          "        self.set_objparams(objparams)\n        yield\n        self.restore_objparams()", "C10-P"),
        R("c10-uselinop-except-only", "C10", LINOP,
          "            yield self\n        finally:\n            self.setuniqueparams(methodname, *_orig_params_)",
          "            yield self\n        except RuntimeError:\n            self.setuniqueparams(methodname, *_orig_params_)\n            raise\n        else:\n            self.setuniqueparams(methodname, *_orig_params_)", "C10-P",
          note="restores only for RuntimeError: any other exception leaks the substituted parameters"),
        R("c10-debug-restores-false", "C10", MODES,
          "@contextmanager\ndef enable_debug():\n    try:\n        dbg_mode = is_debug_enabled()\n        set_debug_mode(True)\n        yield\n    except Exception as e:\n        raise e\n    finally:\n        set_debug_mode(dbg_mode)",
          "@contextmanager\ndef enable_debug():\n    try:\n        dbg_mode = is_debug_enabled()\n        set_debug_mode(True)\n        yield\n    except Exception as e:\n        raise e\n    finally:\n        set_debug_mode(False)", "C10-P",
          note="nested enable_debug leaves debug mode off"),
        R("c10-state-change-read-after", "C10", PF,
          "            prev_status = self._state_change_allowed\n            self._state_change_allowed = False\n            yield",
          "            self._state_change_allowed = False\n            prev_status = self._state_change_allowed\n            yield", "C10-P"),
        R("c10-functional-sets-directly", "C10", "xitorch/optimize/rootfinder.py",
          "        with fwd_fcn.useobjparams(objparams):\n\n            method = config.pop(\"method\")",
          "        fwd_fcn.set_objparams(objparams)\n        if True:\n\n            method = config.pop(\"method\")", ["C10-M", "C10-W"]),
        R("c10-bare-cm-call", "C10", JAC,
          "            with torch.enable_grad(), self.fcn.useobjparams(self.objparams):\n                self.__update_params()\n                yparam = self.params[self.idx]\n                yout = self.fcn(*self.params)  # (*nout)\n\n        gout1",
          "            self.fcn.useobjparams(self.objparams)\n            with torch.enable_grad():\n                self.__update_params()\n                yparam = self.params[self.idx]\n                yout = self.fcn(*self.params)  # (*nout)\n\n        gout1", "C10-W"),
        R("c10-pop-front", "C10", PF, "        old_objparams, identical = self._restore_stack.pop(-1)", "        old_objparams, identical = self._restore_stack.pop(0)", "C10-L"),
        R("c10-push-after-set", "C10", PF,
          "        self._restore_stack.append((self._cur_objparams, identical))\n        if not identical:\n            allobjparams = self._uniq.map_unique_objs(objparams)\n            self._set_all_obj_params(allobjparams)\n            self._cur_objparams = list(objparams)",
          "        if not identical:\n            allobjparams = self._uniq.map_unique_objs(objparams)\n            self._set_all_obj_params(allobjparams)\n        self._restore_stack.append((self._cur_objparams, identical))\n        if not identical:\n            self._cur_objparams = list(objparams)", "C10-L"),
        R("c10-nn-restore-skips-none", "C10", PF,
          "        for (name, param) in zip(self.names, objparams):\n            del_attr(self.obj, name)",
          "        for (name, param) in zip(self.names, objparams):\n            if param is None:\n                continue\n            del_attr(self.obj, name)", "C10-O"),
        R("c10-nn-no-delete", "C10", PF,
          "            del_attr(self.obj, name)  # delete required in case the param is not a torch.nn.Parameter\n", "", "C10-O"),
        R("c10-restore-does-not-record", "C10", PF,
          "            self._set_all_obj_params(allobjparams)\n            self._cur_objparams = old_objparams",
          "            self._set_all_obj_params(allobjparams)", "C10-L"),
        R("c10-listop-restores-clones", "C10", EM,
          "            all_tensors_copy = copy.copy(all_tensors)\n            _set_tensors(self, all_tensors_copy)",
          "            all_tensors_copy = copy.copy(copy_tensors0)\n            _set_tensors(self, all_tensors_copy)", "C10-P"),
    ]


def c11():
    return [
        R("c11-add-rmv-private", "C11", LINOP, "        return self.a.rmv(x) + self.mul * self.b.rmv(x)", "        return self.a._rmv(x) + self.mul * self.b._rmv(x)", "C11-F"),
        R("c11-matmul-rmv-private", "C11", LINOP, "        return self.b.rmv(self.a.rmv(x))", "        return self.b._rmv(self.a._rmv(x))", "C11-F"),
        R("c11-adjoint-unguarded", "C11", LINOP, "        if not self.obj.is_rmv_implemented:\n            raise RuntimeError(\"The ._rmv of must be implemented to call .H.mv()\")\n        return self.obj._rmv(x)", "        return self.obj._rmv(x)", "C11-F"),
        R("c11-base-mm-unguarded", "C11", LINOP, "        if self._is_mm_implemented:\n            return self._mm(x)\n        else:", "        if self._is_mm_implemented or len(xbatchshape) > 0:\n            return self._mm(x)\n        else:", "C11-F"),
        R("c11-rmm-wrong-flag", "C11", LINOP, "            rmv = self._rmv if self._is_rmv_implemented else self.rmv", "            rmv = self._rmv if self._is_mv_implemented else self.rmv", "C11-F"),
        R("c11-matmul-no-shape-check", "C11", LINOP, "        if self.shape[-1] != b.shape[-2]:\n            raise RuntimeError(\"Mismatch shape of matmul operation: %s and %s\" % (self.shape, b.shape))\n", "", "C11-V"),
        R("c11-add-check-after", "C11", LINOP,
          "        if self.shape[-2:] != b.shape[-2:]:\n            raise RuntimeError(\"Mismatch shape of add operation: %s and %s\" % (self.shape, b.shape))\n        if isinstance(self, MatrixLinearOperator) and isinstance(b, MatrixLinearOperator):\n            return LinearOperator.m(self.fullmatrix() + b.fullmatrix())",
          "        if isinstance(self, MatrixLinearOperator) and isinstance(b, MatrixLinearOperator):\n            return LinearOperator.m(self.fullmatrix() + b.fullmatrix())\n        if self.shape[-2:] != b.shape[-2:]:\n            raise RuntimeError(\"Mismatch shape of add operation: %s and %s\" % (self.shape, b.shape))", "C11-V"),
        R("c11-rmv-wrong-dim", "C11", LINOP, "        if x.shape[-1] != self.shape[-2]:\n            raise RuntimeError(\"Cannot operate .rmv", "        if x.shape[-1] != self.shape[-1]:\n            raise RuntimeError(\"Cannot operate .rmv", "C11-V"),
        R("c11-hermitian-nonsquare-accepted", "C11", LINOP, "        if is_hermitian and shape[-1] != shape[-2]:\n            raise RuntimeError(\"The object is indicated as Hermitian, but the shape is not square\")\n", "", "C11-V"),
        R("c11-mul-accepts-anything", "C11", LINOP, "        if not (isinstance(f, int) or isinstance(f, float)):\n            raise TypeError(\"LinearOperator multiplication only supports integer or floating point\")\n", "", "C11-V"),
        R("c11-H-no-conj", "C11", LINOP, "            return LinearOperator.m(self.fullmatrix().transpose(-2, -1).conj())", "            return LinearOperator.m(self.fullmatrix().transpose(-2, -1))", "C11-H"),
        R("c11-rmm-no-conj", "C11", LINOP, "        return torch.matmul(self.mat.transpose(-2, -1).conj(), x)", "        return torch.matmul(self.mat.transpose(-2, -1), x)", "C11-H"),
        R("c11-add-drops-b-params", "C11", LINOP,
          "class AddLinearOperator(LinearOperator):", "class AddLinearOperator(LinearOperator):  # mutated", None, expect="silent", note="negative control: a comment-only change must stay silent"),
        R("c11-add-paramnames-missing-b", "C11", LINOP,
          "        self.mul = mul\n\n    def __repr__(self):\n        return \"AddLinearOperator with shape %s of:\\n * %s\\n * %s\" % \\\n            (_shape2str(self.shape),\n             _indent(self.a.__repr__(), 3),\n             _indent(self.b.__repr__(), 3))\n\n    def _mv(self, x: torch.Tensor) -> torch.Tensor:\n        return self.a._mv(x) + self.mul * self.b._mv(x)\n\n    def _rmv(self, x: torch.Tensor) -> torch.Tensor:\n        return self.a.rmv(x) + self.mul * self.b.rmv(x)\n\n    def _getparamnames(self, prefix: str = \"\") -> List[str]:\n        return self.a._getparamnames(prefix=prefix + \"a.\") + \\\n            self.b._getparamnames(prefix=prefix + \"b.\")",
          "        self.mul = mul\n\n    def __repr__(self):\n        return \"AddLinearOperator with shape %s of:\\n * %s\\n * %s\" % \\\n            (_shape2str(self.shape),\n             _indent(self.a.__repr__(), 3),\n             _indent(self.b.__repr__(), 3))\n\n    def _mv(self, x: torch.Tensor) -> torch.Tensor:\n        return self.a._mv(x) + self.mul * self.b._mv(x)\n\n    def _rmv(self, x: torch.Tensor) -> torch.Tensor:\n        return self.a.rmv(x) + self.mul * self.b.rmv(x)\n\n    def _getparamnames(self, prefix: str = \"\") -> List[str]:\n        return self.a._getparamnames(prefix=prefix + \"a.\")", "C11-P"),
        R("c11-adjoint-prefix", "C11", LINOP, "        return self.obj._getparamnames(prefix=prefix + \"obj.\")", "        return self.obj._getparamnames(prefix=prefix)", "C11-P"),
        R("c11-flag-via-getattr", "C11", LINOP, "        if not cls.__dict__.get(\"_implementation_checked\", False):", "        if not getattr(cls, \"_implementation_checked\"):", "C11-C"),
    ]


def c19():
    return [
        R("c19-new-self-lambda", "C19", "xitorch/_impls/optimize/root/_jacobian.py", "        self.y = y0\n        self.func = func\n",
          "        self.y = y0\n        self.func = func\n        self._solve_cb = lambda v: self.solve(v)\n", "C19-C"),
        R("c19-ctx-output-rootfinder", "C19", RF, "        ctx.fcn = fcn\n\n        # split tensors and non-tensors params", "        ctx.fcn = fcn\n        ctx.y = y\n\n        # split tensors and non-tensors params", "AC8"),
        R("c19-ctx-output-tuple-symeig", "C19", SYM, "        ctx.na = na\n        ctx.A = A\n        ctx.M = M\n        return evals, evecs", "        ctx.na = na\n        ctx.A = A\n        ctx.M = M\n        ctx.eig = (evals, evecs)\n        return evals, evecs", "AC8"),
        R("c19-global-cache", "C19", FQ, "def leggauss(fcn, xl, xu, params, n=100, **unused):", "_lg_cache = {}\n\n\ndef leggauss(fcn, xl, xu, params, n=100, **unused):\n    _lg_cache[n] = xu", "C19-G"),
        R("c19-recursive-closure", "C19", QUAD, "        def new_fcn(x, *grad_y_params):\n            grad_ys = grad_y_params[0]\n", "        def new_fcn(x, *grad_y_params):\n            grad_ys = grad_y_params[0]\n            _self = new_fcn\n", "C19-R"),
    ]


def c20():
    return [
        R("c20-tuple-one-side", "C20", PACK, "    if isinstance(b, torch.Tensor):\n        res.append(b)\n    elif isinstance(b, list):\n        for elmt in b:", "    if isinstance(b, torch.Tensor):\n        res.append(b)\n    elif isinstance(b, (list, tuple)):\n        for elmt in b:", "C20-T"),
        R("c20-dict-order", "C20", PACK, "        for key, elmt in b.items():\n            b[key] = _put_tensors(elmt, tensors)", "        for key, elmt in sorted(b.items()):\n            b[key] = _put_tensors(elmt, tensors)", "C20-T"),
        R("c20-pop-last", "C20", PACK, "        b = tensors.pop(0)", "        b = tensors.pop()", "C20-T"),
        R("c20-refill-self-obj", "C20", PACK, "            memo = copy(self._tensor_memo)\n            new_obj = deepcopy(self._obj, memo)\n            new_obj = _put_tensors(new_obj, tensors)", "            new_obj = _put_tensors(self._obj, tensors)", "C20-F"),
        R("c20-shared-memo", "C20", PACK, "            memo = copy(self._tensor_memo)\n            new_obj = deepcopy(self._obj, memo)", "            new_obj = deepcopy(self._obj, self._tensor_memo)", "C20-F"),
        R("c20-caller-list-consumed", "C20", PACK, "                tensors = copy(tensors)\n", "                pass\n", "C20-F"),
        R("c20-no-shape-check", "C20", PACK, "                if tens.shape != shape:", "                if False:", "C20-R"),
        R("c20-no-length-check", "C20", PACK, "            if len(tensor_shapes) != len(tensors):\n                raise RuntimeError(\"Mismatch length of the tensors\")\n", "", "C20-R"),
        R("c20-key-not-id", "C20", PACK, "    ids_list = [id(bb) for bb in b]", "    ids_list = [bb.data_ptr() for bb in b]", "C20-I"),
        R("c20-init-keeps-original", "C20", PACK, "        self._obj = deepcopy(obj, memo)", "        self._obj = obj", "C20-F"),
        R("c20-construct-caches", "C20", PACK, "            new_obj = _put_tensors(new_obj, tensors)\n\n            return new_obj", "            new_obj = _put_tensors(new_obj, tensors)\n            self._last = new_obj\n\n            return new_obj", "C20-F"),
    ]


def c18():
    return [
        R("c18-upper-key", "C18", IVP, "            \"rk45\": rk45_adaptive,\n            \"euler\": fwd_euler_ivp,\n        }\n        solver", "            \"RK45\": rk45_adaptive,\n            \"euler\": fwd_euler_ivp,\n        }\n        solver", "C18-L"),
        R("c18-bypass-get-method", "C18", QUAD, "            method_fcn = get_method(\"quad\", methods, method)", "            method_fcn = methods[method] if isinstance(method, str) else method", ["C18-G", "C18-A"]),
        R("c18-silent-default", "C18", MISC, "        else:\n            raise RuntimeError(\"Unknown %s method: %s\" % (algname, method))", "        else:\n            return next(iter(methods.values()))", "C18-R"),
        R("c18-no-lower", "C18", MISC, "        methodname = method.lower()", "        methodname = method", "C18-R"),
        R("c18-under-enable-grad", "C18", RF, "        with fwd_fcn.useobjparams(objparams):\n\n            method = config.pop(\"method\")", "        with fwd_fcn.useobjparams(objparams), torch.enable_grad():\n\n            method = config.pop(\"method\")", "C18-N"),
        R("c18-options-not-splatted", "C18", "xitorch/integrate/mcquad.py", "            xsamples, wsamples = method_fcn(log_pfcn, x0, pparams, **config)", "            xsamples, wsamples = method_fcn(log_pfcn, x0, pparams, config)", "C18-A"),
        R("c18-method-left-in-options", "C18", IVP, "        method = config.pop(\"method\")\n        methods = {\n            \"rk4\": rk4_ivp,", "        method = config[\"method\"]\n        methods = {\n            \"rk4\": rk4_ivp,", "C18-A"),
        R("c18-documented-not-dispatchable", "C18", S_PUB, "                    \"gmres\": gmres,\n                }\n                method_fcn", "                }\n                method_fcn", "C18-L"),
        R("c18-merge-order", "C18", IVP, "        ctx.bck_config = set_default_option(config, bck_options)", "        ctx.bck_config = set_default_option(bck_options, config)", "C18-O"),
        R("c18-pop-before-merge", "C18", QUAD, "            config = fwd_options\n            ctx.bck_config = set_default_option(config, bck_options)\n", "            config = fwd_options\n            method = config.pop(\"method\")\n            ctx.bck_config = set_default_option(config, bck_options)\n", "C18-O",
          note="(together with the later pop this raises KeyError; the mutant below is the compiling variant)", expect="fire"),
        R("c18-symeig-compare-raw", "C18", SYM, "    # method names are case-insensitive\n    if isinstance(method, str):\n        method = method.lower()\n\n    if method == \"exacteig\":", "    if method == \"exacteig\":", "C18-C"),
        R("c18-equil-membership-raw", "C18", RF, "    if isinstance(method, str):  # method names are case-insensitive\n        method = method.lower()\n    fwd_options[\"method\"] = method\n    fwd_fcn", "    fwd_options[\"method\"] = method\n    fwd_fcn", "C18-C"),
        R("c18-positional-swapped", "C18", "xitorch/linalg/solve.py", "                x = method_fcn(A, B, E, M, **config)", "                x = method_fcn(A, B, M, E, **config)", "C18-A"),
    ]


def c17():
    return [
        R("c17-hess-no-validation", "C17", JAC, "    idxs_list = _setup_idxs(idxs, params)\n\n    # make the function a functional (depends on all parameters in the object)\n    pfcn = get_pure_function(fcn)\n\n    res = []",
          "    idxs_list = [idxs] if isinstance(idxs, int) else idxs\n\n    # make the function a functional (depends on all parameters in the object)\n    pfcn = get_pure_function(fcn)\n\n    res = []", "C17-V"),
        R("c17-shape-swapped", "C17", JAC, "            shape=(nout, nin),", "            shape=(nin, nout),", "C17-S"),
        R("c17-objparams-not-in-key", "C17", JAC, "        return [id(param) for param in self.params_tensor] == self.id_params_tensor and \\\n               [id(param) for param in self.objparams] == self.id_objparams_tensor",
          "        return [id(param) for param in self.params_tensor] == self.id_params_tensor", "C17-K"),
        R("c17-rmv-no-create-graph", "C17", JAC, "            one_dfdy, = torch.autograd.grad(yout, (yparam,), grad_outputs=gout1[i].reshape(self.outshape),\n                                            retain_graph=True, create_graph=torch.is_grad_enabled())",
          "            one_dfdy, = torch.autograd.grad(yout, (yparam,), grad_outputs=gout1[i].reshape(self.outshape),\n                                            retain_graph=True)", "AC3"),
        R("c17-hess-not-hermitian", "C17", JAC, "            hs = _Jac(gen_pfcn2(idx), params, idx, is_hermitian=True)", "            hs = _Jac(gen_pfcn2(idx), params, idx)", "C17-H"),
        R("c17-hess-not-sibling", "C17", JAC, "        @make_sibling(pfcn)\n        def pfcn2(*params):", "        def pfcn2(*params):", "C17-H"),
        R("c17-mv-no-connect-objparams", "C17", JAC, "        res = dfdyfs.reshape(*gy.shape[:-1], self.nout)  # (..., nout)\n        res = connect_graph(res, self.params_tensor)\n        res = connect_graph(res, self.objparams)", "        res = dfdyfs.reshape(*gy.shape[:-1], self.nout)  # (..., nout)\n        res = connect_graph(res, self.params_tensor)", "C17-G"),
        R("c17-idx-into-tensor-list", "C17", JAC, "                self.__update_params()\n                yparam = self.params[self.idx]\n                yout = self.fcn(*self.params)  # (*nout)\n                v =", "                self.__update_params()\n                yparam = self.params_tensor[self.idx]\n                yout = self.fcn(*self.params)  # (*nout)\n                v =", "C17-X"),
        R("c17-setup-idxs-accepts-nongrad", "C17", JAC, "        assert_type(isinstance(params[p], torch.Tensor) and params[p].requires_grad,", "        assert_type(isinstance(params[p], torch.Tensor),", "C17-V"),
        R("c17-rmv-reshape-in", "C17", JAC, "        gout1 = gout.reshape(-1, self.nout)  # (nbatch, nout)", "        gout1 = gout.reshape(-1, self.nin)  # (nbatch, nout)", "C17-S"),
        R("c17-reeval-outside-useobjparams", "C17", JAC, "            with torch.enable_grad(), self.fcn.useobjparams(self.objparams):\n                self.__update_params()\n                yparam = self.params[self.idx]\n                yout = self.fcn(*self.params)  # (*nout)\n\n        gout1",
          "            with torch.enable_grad():\n                self.__update_params()\n                yparam = self.params[self.idx]\n                yout = self.fcn(*self.params)  # (*nout)\n\n        gout1", "C17-G"),
    ]


def c09():
    return [
        R("c09-equilibrium-undecorated", "C09", RF, "    @make_sibling(pfunc)\n    def new_fcn(y, *params):\n        return y - pfunc(y, *params)", "    def new_fcn(y, *params):\n        return y - pfunc(y, *params)", "C09-S"),
        R("c09-ivp-sibling-of-nothing", "C09", IVP, "        @make_sibling(pfcn)\n        def pfcn2(t, ytensor, *params):", "        def pfcn2(t, ytensor, *params):", "C09-S"),
        R("c09-quad-drop-objparams", "C09", QUAD, "        res = _Quadrature.apply(pfunc2, xl, xu, fwd_options, bck_options, nparams,\n                                dtype, device, *params, *pfunc.objparams())",
          "        res = _Quadrature.apply(pfunc2, xl, xu, fwd_options, bck_options, nparams,\n                                dtype, device, *params)", "AC6"),
        R("c09-minimize-count", "C09", RF, "    return _RootFinder.apply(_rf_fcn, y0, _fwd_fcn, alg_type, fwd_options, bck_options,\n                             len(params), *params, *pfunc.objparams())",
          "    return _RootFinder.apply(_rf_fcn, y0, _fwd_fcn, alg_type, fwd_options, bck_options,\n                             len(params) - 1, *params, *pfunc.objparams())", "AC6"),
        R("c09-mcquad-objparams-swapped", "C09", MCQ, "    fobjparams = pure_ffcn.objparams()\n    pobjparams = pure_logpfcn.objparams()", "    fobjparams = pure_logpfcn.objparams()\n    pobjparams = pure_ffcn.objparams()", "AC6"),
        R("c09-forward-split-wrong", "C09", IVP, "        params = allparams[:nparams]\n        objparams = allparams[nparams:]\n\n        method = config.pop(\"method\")", "        params = allparams[:nparams]\n        objparams = allparams[nparams + 1:]\n\n        method = config.pop(\"method\")", "AC6"),
        R("c09-pure-function-nn-first", "C09", PF, "        if isinstance(obj, EditableModule):\n            return EditableModulePureFunction(obj, fcn)\n        elif isinstance(obj, torch.nn.Module):\n            return TorchNNPureFunction(obj, fcn)\n        else:\n            raise RuntimeError(errmsg)",
          "        if isinstance(obj, EditableModule):\n            return EditableModulePureFunction(obj, fcn)\n        elif isinstance(obj, torch.nn.Module):\n            return TorchNNPureFunction(obj, fcn)\n        else:\n            return FunctionPureFunction(fcn)", "C09-D",
          note="methods of arbitrary objects silently accepted: their tensors are invisible to autograd"),
        R("c09-identical-any", "C09", PF, "    for obj1, obj2 in zip(objs1, objs2):\n        if id(obj1) != id(obj2):\n            return False\n    return True", "    return not all(o1 is not o2 for o1, o2 in zip(objs1, objs2))", "C09-I"),
        R("c09-identical-all-ok", "C09", PF, "    for obj1, obj2 in zip(objs1, objs2):\n        if id(obj1) != id(obj2):\n            return False\n    return True", "    return all(o1 is o2 for o1, o2 in zip(objs1, objs2))", None, expect="silent",
          note="equivalent re-expression must stay silent"),
        R("c09-multisibling-offset", "C09", PF, "            self.cumsum_idx[i + 1] = self.cumsum_idx[i] + len(objparams)", "            self.cumsum_idx[i + 1] = self.cumsum_idx[i] + len(res)", "C09-U"),
        R("c09-restore-not-expanded", "C09", PF, "            allobjparams = self._uniq.map_unique_objs(old_objparams)\n            self._set_all_obj_params(allobjparams)", "            self._set_all_obj_params(old_objparams)", "C09-U"),
        R("c09-make-sibling-single-for-many", "C09", PF, "        return lambda fcn: MultiSiblingPureFunction(pfuncs, fcntocall=fcn)", "        return lambda fcn: SingleSiblingPureFunction(pfuncs[0], fcntocall=fcn)", "C09-D"),
    ]


def all_mutants():
    ms = []
    for f in (defects_back, c01, c02, c03, c04, c08, c13, c16, c10, c11, c19, c20, c18, c17, c09):
        ms += f()
    import importlib
    try:
        more = importlib.import_module("mutants_more")
        ms += more.all_mutants()
    except ModuleNotFoundError:
        pass
    ids = [m["id"] for m in ms]
    assert len(ids) == len(set(ids)), "duplicate mutant ids"
    return ms
