"""False-alarm resistance: apply *behaviour-preserving* source transformations to a scratch copy of the
whole package and require every check to stay silent (exit 0).

Transformations (each applied to every module of the package at once):
  roundtrip   ast.parse -> ast.unparse (drops comments, re-formats, re-quotes, re-parenthesises)
  shift       a comment header of 37 lines is prepended (all line numbers move)
  rename      consistent renaming of function-local variables (not parameters, not names shared with a
              nested scope, not global/nonlocal) to `<name>_rs`
  negif       `if c: A else: B`  ->  `if not (c): B else: A` where both branches exist and B is not an elif
  passes      a `pass` statement is appended to every function body and loop body
  docstring   a docstring is added to every function that has none
  reorder     module-level function definitions that are adjacent are swapped pairwise (definitions are
              order-independent at module level unless decorated or referenced by a decorator/default)
  elsify      the statements after an `if` whose body ends in return / raise / continue / break move into an else arm
  flatten     the inverse: `if c: ..return else: rest` becomes `if c: ..return` followed by rest
  tempret     `return <call or arithmetic>` becomes `_rv = ...; return _rv`
  methods     pairwise swap of adjacent undecorated, non-dunder methods of every class
  all         rename, negif, passes, docstring, reorder, methods, shift composed

Not a registered check.  Usage: /venv/bin/python selftest/respell.py [transform ...] [--props C01,C02]"""
from __future__ import annotations
import ast
import os
import shutil
import sys
import symtable
from concurrent.futures import ProcessPoolExecutor

HERE = os.path.dirname(os.path.abspath(__file__))
VERIF = os.path.dirname(HERE)
sys.path.insert(0, HERE)
import harness  # noqa: E402


def _files(root):
    for dp, dn, fn in os.walk(os.path.join(root, "xitorch")):
        dn[:] = [d for d in dn if d not in ("__pycache__", "_tests")]
        for f in fn:
            if f.endswith(".py"):
                yield os.path.join(dp, f)


def _read(p):
    with open(p, encoding="utf-8", newline=None) as f:
        return f.read()


def _write(p, s):
    with open(p, "w", encoding="utf-8", newline="\n") as f:
        f.write(s)


# ----------------------------------------------------------------------------------------------
def t_roundtrip(src, path):
    return ast.unparse(ast.parse(src)) + "\n"


def t_shift(src, path):
    lines = src.split("\n")
    # keep a leading `from __future__` legal: comments may precede it
    return "\n".join(["# shifted"] * 37) + "\n" + src


class _Renamer(ast.NodeTransformer):
    """rename locals of one function; nested functions/lambdas/comprehensions are left alone and any name
    they mention is excluded from renaming."""
    def __init__(self, names):
        self.names = names

    def visit_Name(self, node):
        if node.id in self.names:
            node.id = node.id + "_rs"
        return node

    def visit_FunctionDef(self, node):
        return node          # do not descend (handled separately)
    visit_AsyncFunctionDef = visit_FunctionDef
    visit_Lambda = visit_FunctionDef
    visit_ClassDef = visit_FunctionDef

    def visit_ExceptHandler(self, node):
        if node.name in self.names:
            node.name = node.name + "_rs"
        self.generic_visit(node)
        return node


def _nested_names(fn):
    out = set()
    for n in ast.walk(fn):
        if n is fn:
            continue
        if isinstance(n, (ast.FunctionDef, ast.AsyncFunctionDef, ast.Lambda, ast.ClassDef,
                          ast.ListComp, ast.SetComp, ast.DictComp, ast.GeneratorExp)):
            for m in ast.walk(n):
                if isinstance(m, ast.Name):
                    out.add(m.id)
                elif isinstance(m, ast.arg):
                    out.add(m.arg)
                elif isinstance(m, (ast.Global, ast.Nonlocal)):
                    out.update(m.names)
    return out


def t_rename(src, path):
    tree = ast.parse(src)
    for fn in [n for n in ast.walk(tree) if isinstance(n, (ast.FunctionDef, ast.AsyncFunctionDef))]:
        params = {a.arg for a in fn.args.args + fn.args.posonlyargs + fn.args.kwonlyargs}
        if fn.args.vararg:
            params.add(fn.args.vararg.arg)
        if fn.args.kwarg:
            params.add(fn.args.kwarg.arg)
        excluded = set(params) | _nested_names(fn)
        stores = set()
        uses_locals = False
        body_nodes = []
        stack = list(fn.body)
        while stack:
            n = stack.pop()
            body_nodes.append(n)
            if isinstance(n, (ast.FunctionDef, ast.AsyncFunctionDef, ast.Lambda, ast.ClassDef)):
                continue
            stack.extend(ast.iter_child_nodes(n))
        for n in body_nodes:
            if isinstance(n, ast.Name) and isinstance(n.ctx, (ast.Store, ast.Del)):
                stores.add(n.id)
            elif isinstance(n, (ast.Global, ast.Nonlocal)):
                excluded.update(n.names)
            elif isinstance(n, ast.ExceptHandler) and n.name:
                stores.add(n.name)
            elif isinstance(n, (ast.Import, ast.ImportFrom)):
                for a in n.names:
                    excluded.add((a.asname or a.name).split(".")[0])
            elif isinstance(n, ast.Call) and isinstance(n.func, ast.Name) and n.func.id in ("locals", "vars", "eval", "exec"):
                uses_locals = True
            elif isinstance(n, (ast.FunctionDef, ast.AsyncFunctionDef, ast.ClassDef)):
                excluded.add(n.name)
        if uses_locals:
            continue
        names = {s for s in stores if s not in excluded and not s.startswith("__")}
        if not names:
            continue
        r = _Renamer(names)
        fn.body = [r.visit(s) for s in fn.body]
    return ast.unparse(tree) + "\n"


class _NegIf(ast.NodeTransformer):
    def visit_If(self, node):
        self.generic_visit(node)
        if node.orelse and not (len(node.orelse) == 1 and isinstance(node.orelse[0], ast.If)):
            return ast.If(test=ast.UnaryOp(op=ast.Not(), operand=node.test), body=node.orelse, orelse=node.body)
        return node


def t_negif(src, path):
    return ast.unparse(ast.fix_missing_locations(_NegIf().visit(ast.parse(src)))) + "\n"


class _Passes(ast.NodeTransformer):
    def _add(self, node):
        self.generic_visit(node)
        node.body = list(node.body) + [ast.Pass()]
        return node
    visit_FunctionDef = _add
    visit_For = _add
    visit_While = _add


def t_passes(src, path):
    return ast.unparse(ast.fix_missing_locations(_Passes().visit(ast.parse(src)))) + "\n"


class _Doc(ast.NodeTransformer):
    def visit_FunctionDef(self, node):
        self.generic_visit(node)
        if ast.get_docstring(node) is None:
            node.body = [ast.Expr(ast.Constant("re-spelled: docstring added"))] + list(node.body)
        return node


def t_docstring(src, path):
    return ast.unparse(ast.fix_missing_locations(_Doc().visit(ast.parse(src)))) + "\n"


def t_reorder(src, path):
    tree = ast.parse(src)
    body = list(tree.body)
    # names used at module level outside function bodies (decorators, defaults, assignments, class bodies)
    i = 0
    while i + 1 < len(body):
        a, b = body[i], body[i + 1]
        if (isinstance(a, ast.FunctionDef) and isinstance(b, ast.FunctionDef)
                and not a.decorator_list and not b.decorator_list
                and not a.args.defaults and not b.args.defaults
                and not a.args.kw_defaults and not b.args.kw_defaults
                and a.name != b.name):
            body[i], body[i + 1] = b, a
            i += 2
        else:
            i += 1
    tree.body = body
    return ast.unparse(tree) + "\n"


def _terminates(body) -> bool:
    return bool(body) and isinstance(body[-1], (ast.Return, ast.Raise, ast.Continue, ast.Break))


class _Elsify(ast.NodeTransformer):
    """`if c: ...return` followed by more statements  ->  the rest moves into an else arm"""
    def _blocks(self, node):
        self.generic_visit(node)
        for fld in ("body", "orelse", "finalbody"):
            body = getattr(node, fld, None)
            if isinstance(body, list) and body and isinstance(body[0], ast.stmt):
                for i, s_ in enumerate(body[:-1]):
                    if isinstance(s_, ast.If) and not s_.orelse and _terminates(s_.body):
                        s_.orelse = body[i + 1:]
                        setattr(node, fld, body[:i + 1])
                        break
        return node
    visit_FunctionDef = _blocks
    visit_For = _blocks
    visit_While = _blocks
    visit_If = _blocks
    visit_With = _blocks
    visit_Try = _blocks


def t_elsify(src, path):
    return ast.unparse(ast.fix_missing_locations(_Elsify().visit(ast.parse(src)))) + "\n"


class _Flatten(ast.NodeTransformer):
    """`if c: ...return  else: rest`  ->  `if c: ...return` ; rest   (inverse of elsify)"""
    def _blocks(self, node):
        self.generic_visit(node)
        for fld in ("body", "orelse", "finalbody"):
            body = getattr(node, fld, None)
            if isinstance(body, list) and body and isinstance(body[-1], ast.If):
                last = body[-1]
                if last.orelse and _terminates(last.body) and not (len(last.orelse) == 1 and isinstance(last.orelse[0], ast.If)):
                    rest = last.orelse
                    last.orelse = []
                    setattr(node, fld, body + rest)
        return node
    visit_FunctionDef = _blocks
    visit_For = _blocks
    visit_While = _blocks
    visit_If = _blocks
    visit_With = _blocks


def t_flatten(src, path):
    return ast.unparse(ast.fix_missing_locations(_Flatten().visit(ast.parse(src)))) + "\n"


class _TempRet(ast.NodeTransformer):
    """`return f(x)`  ->  `_rv = f(x); return _rv`"""
    def _blocks(self, node):
        self.generic_visit(node)
        for fld in ("body", "orelse", "finalbody"):
            body = getattr(node, fld, None)
            if isinstance(body, list) and body and isinstance(body[0], ast.stmt):
                out = []
                for s_ in body:
                    if isinstance(s_, ast.Return) and isinstance(s_.value, (ast.Call, ast.BinOp)):
                        out.append(ast.Assign(targets=[ast.Name(id="_rv", ctx=ast.Store())], value=s_.value, lineno=s_.lineno))
                        out.append(ast.Return(value=ast.Name(id="_rv", ctx=ast.Load())))
                    else:
                        out.append(s_)
                setattr(node, fld, out)
        return node
    visit_FunctionDef = _blocks
    visit_For = _blocks
    visit_While = _blocks
    visit_If = _blocks
    visit_With = _blocks
    visit_Try = _blocks

    def visit_Lambda(self, node):
        return node


def t_tempret(src, path):
    return ast.unparse(ast.fix_missing_locations(_TempRet().visit(ast.parse(src)))) + "\n"


def t_methods(src, path):
    """pairwise swap of adjacent undecorated methods of a class (definition order inside a class body is irrelevant)"""
    tree = ast.parse(src)
    for c in ast.walk(tree):
        if isinstance(c, ast.ClassDef):
            body = list(c.body)
            i = 0
            while i + 1 < len(body):
                a, b = body[i], body[i + 1]
                if isinstance(a, ast.FunctionDef) and isinstance(b, ast.FunctionDef) and not a.decorator_list and not b.decorator_list and a.name != b.name \
                        and not a.name.startswith("__") and not b.name.startswith("__"):
                    body[i], body[i + 1] = b, a
                    i += 2
                else:
                    i += 1
            c.body = body
    return ast.unparse(tree) + "\n"


TRANSFORMS = dict(roundtrip=t_roundtrip, shift=t_shift, rename=t_rename, negif=t_negif, passes=t_passes,
                  docstring=t_docstring, reorder=t_reorder, elsify=t_elsify, flatten=t_flatten, tempret=t_tempret, methods=t_methods)


def t_all(src, path):
    for k in ("rename", "negif", "passes", "docstring", "reorder", "methods", "shift"):
        src = TRANSFORMS[k](src, path)
    return src


TRANSFORMS["all"] = t_all


def _one(args):
    tname, prop, root = args
    rc, out = harness.run_check(prop, root)
    lines = [l for l in out.splitlines() if l.startswith(("ANALYSIS-ERROR", "  xitorch/", "  (also)"))]
    return tname, prop, rc, "\n".join(lines[:8])


def main(argv):
    repo = "/repo"
    props = ["C%02d" % i for i in range(1, 21)]
    names = []
    it = iter(argv)
    for a in it:
        if a == "--props":
            props = next(it).split(",")
        elif a == "--repo":
            repo = next(it)
        else:
            names.append(a)
    names = names or list(TRANSFORMS)
    roots = {}
    try:
        for t in names:
            root = harness.make_scratch(repo)
            roots[t] = root
            n = 0
            for p in _files(root):
                src = _read(p)
                new = TRANSFORMS[t](src, p)
                compile(new, p, "exec")
                if new != src:
                    n += 1
                _write(p, new)
            print("transform %-10s applied to %d modules" % (t, n), flush=True)
        jobs = [(t, p, roots[t]) for t in names for p in props]
        bad = 0
        with ProcessPoolExecutor(max_workers=16) as ex:
            for t, p, rc, out in ex.map(_one, jobs):
                if rc != 0:
                    bad += 1
                    print("NOT-SILENT transform=%s property=%s exit=%d\n%s" % (t, p, rc, out), flush=True)
        print("respell: %d transform(s) x %d propert(ies): %d not silent" % (len(names), len(props), bad))
        return 1 if bad else 0
    finally:
        for r in roots.values():
            shutil.rmtree(r, ignore_errors=True)


if __name__ == "__main__":
    sys.exit(main(sys.argv[1:]))
