#!/usr/bin/env python3
"""Regenerate xv/rules/name_roles.json (rename-invariant occurrence signatures of the local variables of every
function of the package) from the tree given as argument (default /repo).  Run only on the reference tree."""
import ast
import json
import os
import sys

HERE = os.path.dirname(os.path.abspath(__file__))
sys.path.insert(0, os.path.dirname(HERE))
from xv import alpha          # noqa: E402
from xv.model import normal_form  # noqa: E402


def main(repo="/repo"):
    table = {}
    root = os.path.join(repo, "xitorch")
    for dp, dn, fn in os.walk(root):
        dn[:] = sorted(d for d in dn if d not in ("_tests", "__pycache__"))
        for f in sorted(fn):
            if f.endswith(".py"):
                p = os.path.join(dp, f)
                with open(p, encoding="utf-8") as fh:
                    tree = normal_form(ast.parse(fh.read()))
                t = alpha.reference_table(tree)
                if t:
                    table[os.path.relpath(p, repo).replace(os.sep, "/")] = t
    with open(alpha.ROLES_FILE, "w") as f:
        json.dump(table, f, indent=0, sort_keys=True)
    print("name roles: %d modules, %d functions, %d locals" % (len(table), sum(len(v) for v in table.values()),
                                                              sum(len(x["locals"]) for v in table.values() for x in v.values())))


if __name__ == "__main__":
    main(*sys.argv[1:])
