#!/venv/bin/python
"""Re-run every implemented check against every seeded change in /verif/seeded/<id>/patch.diff.

Each patch is applied to a scratch copy of /repo's current tree (fresh temp dir outside /repo and /verif, removed afterwards);
nothing is committed or left applied.  Updates seeded/<id>/meta.json (`detected_by`, `detected_by_own_property`) and prints a table.
usage: seed_recheck.py [--update] [id ...]"""
import glob
import json
import os
import shutil
import subprocess
import sys
import tempfile
from concurrent.futures import ProcessPoolExecutor

VERIF = os.path.dirname(os.path.dirname(os.path.abspath(__file__)))
sys.path.insert(0, os.path.join(VERIF, "selftest"))
import harness  # noqa


def props():
    return sorted(os.path.basename(p)[:-3].upper() for p in glob.glob(os.path.join(VERIF, "xv/props/c*.py")))


def one(sid):
    d = os.path.join(VERIF, "seeded", sid)
    root = harness.make_scratch("/repo")
    try:
        if not harness.apply_patch(root, os.path.join(d, "patch.diff")):
            return sid, None, "patch does not apply to the current tree"
        fired = {}
        for p in props():
            rc, out = harness.run_check(p, root)
            if rc != 0:
                rules = sorted({ln.split("[")[1].split("]")[0].split("/")[1] for ln in out.splitlines() if ln.strip().startswith("xitorch/") and "[" + p + "/" in ln})
                fired[p] = dict(rc=rc, rules=rules)
        return sid, fired, ""
    finally:
        shutil.rmtree(root, ignore_errors=True)


def main():
    update = "--update" in sys.argv
    ids = [a for a in sys.argv[1:] if not a.startswith("--")] or sorted(os.listdir(os.path.join(VERIF, "seeded")))
    ids = [i for i in ids if os.path.exists(os.path.join(VERIF, "seeded", i, "patch.diff"))]
    with ProcessPoolExecutor(max_workers=15) as ex:
        res = list(ex.map(one, ids))
    own = other = missed = 0
    for sid, fired, err in res:
        mp = os.path.join(VERIF, "seeded", sid, "meta.json")
        meta = json.load(open(mp)) if os.path.exists(mp) else {}
        prop = meta.get("property", sid.split("-")[0])
        if fired is None:
            print("%-8s %s" % (sid, err))
            continue
        viol = {p: v for p, v in fired.items() if v["rc"] == 1}
        undec = {p: v for p, v in fired.items() if v["rc"] == 2}
        byown = prop in viol
        status = "own" if byown else ("other" if viol else ("undecided" if undec else "MISSED"))
        own += byown
        other += (not byown and bool(viol))
        missed += (not viol)
        print("%-8s %-10s %s%s" % (sid, status, {p: v["rules"] for p, v in viol.items()}, (" undecided(exit 2): %s" % sorted(undec)) if undec else ""))
        if update:
            meta["detected_by"] = {p: v["rules"] for p, v in viol.items()}
            meta["undecided_in"] = sorted(undec)
            meta["detected_by_own_property"] = byown
            meta["detected"] = bool(viol)
            with open(mp, "w") as f:
                json.dump(meta, f, indent=1)
    print("seeded changes: %d; caught by the property's own check: %d; only by another property's check: %d; not caught: %d" % (len(res), own, other, missed))


if __name__ == "__main__":
    main()
