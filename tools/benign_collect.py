#!/venv/bin/python
"""Verify the behaviour-preserving changes of the fifth round delivered by a sub-agent and record them under /verif/benign/.

usage: benign_collect.py <PROP> [--suite] [--wave6]
  /tmp/seed/out5-<PROP>/benign<k>/{patch.diff,demo.py,notes.md}, k = 1..3, worktree /tmp/seed/w5-<PROP>
Steps per change: demo on the clean worktree (must exit 0), apply the patch, demo again (must exit 0), compile, optionally the baseline
suite (448 stable tests must pass), revert.  An accepted change is copied to /verif/benign/<PROP>-<k+4>/ with a meta.json; the checks are
NOT consulted here (tools/benign_check.py measures them afterwards, so the corpus is a held-out test of the rules)."""
import json
import os
import shutil
import subprocess
import sys
import tempfile

VERIF = os.path.dirname(os.path.dirname(os.path.abspath(__file__)))


def sh(cmd, cwd=None, env=None, timeout=3600):
    r = subprocess.run(cmd, shell=True, cwd=cwd, env=env, capture_output=True, text=True, timeout=timeout)
    return r.returncode, r.stdout + r.stderr


def main():
    prop = sys.argv[1].upper()
    suite = "--suite" in sys.argv
    w8 = "--wave8" in sys.argv
    w7 = "--wave7" in sys.argv
    w6 = "--wave6" in sys.argv or w7 or w8
    wt = "/tmp/seed/%s-%s" % ("w8" if w8 else "w7" if w7 else ("w6" if w6 else "w5"), prop)
    out = []
    for k in ((5,) if w8 else (4,) if w6 else (1, 2, 3)):          # sixth round: one refactoring per agent, id <P>-8
        src = "/tmp/seed/out%d-%s/benign1" % (8 if w8 else 7 if w7 else 6, prop) if w6 else "/tmp/seed/out5-%s/benign%d" % (prop, k)
        patch, demo = os.path.join(src, "patch.diff"), os.path.join(src, "demo.py")
        if not (os.path.exists(patch) and os.path.exists(demo)):
            out.append(dict(id="%s-%d" % (prop, k + 4), status="missing"))
            continue
        res = dict(id="%s-%d" % (prop, k + 4))
        sh("git checkout -- .", cwd=wt)
        env = dict(os.environ, OMP_NUM_THREADS="1", PYTHONPATH=wt)
        rc0, _ = sh("/venv/bin/python %s" % demo, cwd=wt, env=env)
        res["demo_unchanged_rc"] = rc0
        rca, oa = sh("git apply --whitespace=nowarn %s" % patch, cwd=wt)
        if rca != 0:
            rca, oa = sh("git apply --ignore-whitespace --whitespace=nowarn %s" % patch, cwd=wt)
        res["patch_applies"] = rca == 0
        if rca == 0:
            rc1, o1 = sh("/venv/bin/python %s" % demo, cwd=wt, env=env)
            res["demo_changed_rc"] = rc1
            res["demo_changed_tail"] = o1.strip()[-300:]
            rcc, _ = sh("/venv/bin/python -m compileall -q xitorch", cwd=wt)
            res["compiles"] = rcc == 0
            if suite:
                junit = tempfile.mktemp(suffix=".xml")
                sh("/venv/bin/python -m pytest -q -p no:cacheprovider --timeout=900 -n 8 --junitxml=%s" % junit, cwd=wt, env=dict(os.environ, OMP_NUM_THREADS="1"))
                rct, ot = sh("%s/tools/baseline_compare.py %s" % (VERIF, junit))
                res["suite"] = ot.strip().splitlines()[0] if ot.strip() else "?"
                res["suite_ok"] = rct == 0
                if os.path.exists(junit):
                    os.remove(junit)
        sh("git checkout -- .", cwd=wt)
        sh("find . -name __pycache__ -prune -exec rm -rf {} +", cwd=wt)
        ok = res.get("patch_applies") and res.get("demo_unchanged_rc") == 0 and res.get("demo_changed_rc") == 0 and res.get("compiles") and res.get("suite_ok", True)
        res["accepted"] = bool(ok)
        d = os.path.join(VERIF, "benign", res["id"])
        if ok:
            os.makedirs(d, exist_ok=True)
            for fn in ("patch.diff", "demo.py", "notes.md"):
                if os.path.exists(os.path.join(src, fn)):
                    shutil.copy(os.path.join(src, fn), os.path.join(d, fn))
            with open(os.path.join(d, "meta.json"), "w") as f:
                json.dump(dict(id=res["id"], property=prop, round=(8 if w8 else 7 if w7 else 6) if w6 else 5, source="independent sub-agent given only the property text and a scratch worktree",
                               verification=res), f, indent=1)
        else:
            shutil.rmtree(d, ignore_errors=True)
        out.append(res)
    print(json.dumps(out, indent=1))
    return 0


if __name__ == "__main__":
    sys.exit(main())
