#!/venv/bin/python
"""Verify a seeded change delivered by a sub-agent and record it under /verif/seeded/.

usage: seed_verify.py <PROP> <k> [--keep] [--no-tests] [--wave2|--wave3|--wave5|--wave6]
  /tmp/seed/out-<PROP>/change<k>/{patch.diff,demo.py,notes.md}, worktree /tmp/seed/wt-<PROP>
Steps: demo on the clean worktree (must exit 0), apply the patch, demo again (must exit != 0), baseline
suite (448 stable tests must pass), every implemented check against the patched worktree, revert."""
import glob
import json
import os
import shutil
import subprocess
import sys
import tempfile

VERIF = os.path.dirname(os.path.dirname(os.path.abspath(__file__)))


def sh(cmd, cwd=None, env=None, timeout=3600):
    r = subprocess.run(cmd, shell=True, cwd=cwd, env=env, capture_output=True, text=True, timeout=timeout)
    return r.returncode, r.stdout + r.stderr


def implemented_props():
    return sorted(os.path.basename(p)[:-3].upper() for p in glob.glob(os.path.join(VERIF, "xv/props/c*.py")))


def main():
    prop, k = sys.argv[1].upper(), sys.argv[2]
    keep = "--keep" in sys.argv
    notests = "--no-tests" in sys.argv
    wave = 8 if "--wave8" in sys.argv else 7 if "--wave7" in sys.argv else 6 if "--wave6" in sys.argv else (5 if "--wave5" in sys.argv else (3 if "--wave3" in sys.argv else (2 if "--wave2" in sys.argv else 1)))
    wt = "/tmp/seed/%s-%s" % ({1: "wt", 2: "w2", 3: "w3", 5: "w5", 6: "w6", 7: "w7", 8: "w8"}[wave], prop)
    if wave == 8:
        # eighth round (all properties again): out8-<P>/fault<k>; ids <P>-15, <P>-16
        out = "/tmp/seed/out8-%s/fault%s" % (prop, k)
        sid = "%s-%d" % (prop, int(k) + 14)
    elif wave in (6, 7):
        # sixth / seventh round (disjoint sets of properties): out6-<P>/fault<k>, out7-<P>/fault<k>; ids continue after round 5
        out = "/tmp/seed/out%d-%s/fault%s" % (wave, prop, k)
        sid = "%s-%d" % (prop, int(k) + 12)
    elif wave == 5:
        # fifth round: out5-<P>/fault<k> (faults) next to out5-<P>/benign<k> (handled by tools/benign_collect.py); ids continue after round 3
        out = "/tmp/seed/out5-%s/fault%s" % (prop, k)
        sid = "%s-%d" % (prop, int(k) + 9)
    else:
        out = "/tmp/seed/%s-%s/change%s" % ({1: "out", 2: "out2", 3: "out3"}[wave], prop, k)
        sid = "%s-%d" % (prop, int(k) + 3 * (wave - 1))
    patch = os.path.join(out, "patch.diff")
    demo = os.path.join(out, "demo.py")
    res = dict(property=prop, change=k)
    sh("git checkout -- .", cwd=wt)
    rc, o = sh("git status --short", cwd=wt)
    res["clean_before"] = (o.strip() == "")
    env = dict(os.environ, OMP_NUM_THREADS="1", PYTHONPATH=wt)
    rc0, o0 = sh("/venv/bin/python %s" % demo, cwd=wt, env=env)
    res["demo_unchanged_rc"] = rc0
    rca, oa = sh("git apply --whitespace=nowarn %s" % patch, cwd=wt)
    if rca != 0:
        rca, oa = sh("git apply --ignore-whitespace --whitespace=nowarn %s" % patch, cwd=wt)
    res["patch_applies"] = (rca == 0)
    if rca != 0:
        res["apply_error"] = oa[-500:]
        print(json.dumps(res, indent=1))
        return 1
    rc, o = sh("git diff --stat", cwd=wt)
    res["diffstat"] = o.strip().splitlines()[-1] if o.strip() else ""
    rc1, o1 = sh("/venv/bin/python %s" % demo, cwd=wt, env=env)
    res["demo_changed_rc"] = rc1
    res["demo_changed_tail"] = o1.strip()[-400:]
    # compile check
    rcc, oc = sh("/venv/bin/python -m compileall -q xitorch", cwd=wt)
    res["compiles"] = (rcc == 0)
    if not notests:
        junit = tempfile.mktemp(suffix=".xml")
        sh("/venv/bin/python -m pytest -q -p no:cacheprovider --timeout=900 -n 8 --junitxml=%s" % junit, cwd=wt,
           env=dict(os.environ, OMP_NUM_THREADS="1"))
        rct, ot = sh("%s/tools/baseline_compare.py %s" % (VERIF, junit))
        res["suite"] = ot.strip().splitlines()[0] if ot.strip() else "?"
        res["suite_ok"] = (rct == 0)
        if os.path.exists(junit):
            os.remove(junit)
    # checks
    tmp = tempfile.mkdtemp(prefix="xv-seed-")
    fired = {}
    try:
        for p in implemented_props():
            rc, o = sh("%s/check %s --repo %s --evidence %s/ev.json" % (VERIF, p, wt, tmp), cwd=VERIF,
                       env=dict(os.environ, XV_OUT_DIR=tmp, PYTHONDONTWRITEBYTECODE="1"))
            if rc != 0:
                rules = sorted({ln.split("[")[1].split("]")[0] for ln in o.splitlines() if ln.strip().startswith("xitorch/") and "[" in ln})
                fired[p] = dict(rc=rc, rules=rules, first=[ln.strip()[:300] for ln in o.splitlines() if "VIOLATION" not in ln and ("[" + p + "/") in ln][:2]
                                or [ln for ln in o.splitlines() if "ANALYSIS-ERROR" in ln][:2])
    finally:
        shutil.rmtree(tmp, ignore_errors=True)
    res["checks_fired"] = fired
    res["caught_by_own_property"] = prop in fired and fired[prop]["rc"] == 1
    sh("git checkout -- .", cwd=wt)
    sh("find . -name __pycache__ -prune -exec rm -rf {} +", cwd=wt)
    rc, o = sh("git status --short", cwd=wt)
    res["clean_after"] = (o.strip() == "")
    print(json.dumps(res, indent=1))
    accepted = res["demo_unchanged_rc"] == 0 and res["demo_changed_rc"] not in (0, None) and res.get("suite_ok", notests) and res["clean_after"]
    if keep and not accepted:
        shutil.rmtree(os.path.join(VERIF, "seeded", sid), ignore_errors=True)     # never keep an unconfirmed change
    if keep and accepted:
        d = os.path.join(VERIF, "seeded", sid)
        os.makedirs(d, exist_ok=True)
        for fn in ("patch.diff", "demo.py", "notes.md"):
            if os.path.exists(os.path.join(out, fn)):
                shutil.copy(os.path.join(out, fn), os.path.join(d, fn))
        notes = open(os.path.join(out, "notes.md")).read() if os.path.exists(os.path.join(out, "notes.md")) else ""
        meta = dict(property=prop, id=sid, round=wave, source="independent sub-agent given only the property text and a scratch worktree",
                    needs_to_manifest=notes.strip()[:1500],
                    what_was_run=dict(
                        demo_unchanged="cd <worktree> && /venv/bin/python demo.py -> exit %s" % res["demo_unchanged_rc"],
                        demo_changed="git apply patch.diff; /venv/bin/python demo.py -> exit %s" % res["demo_changed_rc"],
                        suite="OMP_NUM_THREADS=1 pytest -n 16 ; tools/baseline_compare.py -> %s" % res.get("suite"),
                        checks="./check <ID> --repo <patched worktree> for every implemented property"),
                    verification=res)
        with open(os.path.join(d, "meta.json"), "w") as f:
            json.dump(meta, f, indent=1)
    return 0


if __name__ == "__main__":
    sys.exit(main())
