#!/venv/bin/python
"""First-pass summary of the eighth round from /tmp/seed/collect8-*.json (written by the acceptance runs); prints one line per change."""
import glob, json, os, re, sys
rows = []
for f in sorted(glob.glob("/tmp/seed/collect8-*-fault*.json")):
    m = re.search(r"collect8-(C\d+)-fault(\d)", f)
    P, k = m.group(1), int(m.group(2))
    t = open(f).read()
    try:
        d = json.loads(t[t.index("{"):t.rindex("}") + 1])
    except ValueError:
        rows.append("%s-%d  (running / unreadable)" % (P, k + 14)); continue
    acc = d.get("demo_unchanged_rc") == 0 and d.get("demo_changed_rc") not in (0, None) and d.get("suite_ok")
    fired = d.get("checks_fired", {})
    own = fired.get(P)
    status = "own" if own and own["rc"] == 1 else ("undecided" if own and own["rc"] == 2 else ("other" if any(v["rc"] == 1 for v in fired.values()) else "MISSED"))
    rows.append("%s-%d accepted=%s demo %s->%s suite=%s  first pass: %-9s %s" % (P, k + 14, bool(acc), d.get("demo_unchanged_rc"), d.get("demo_changed_rc"), (d.get("suite") or "")[-40:], status,
                {p: (v["rc"], v["rules"]) for p, v in fired.items()}))
for f in sorted(glob.glob("/tmp/seed/collect8-*-benign.json")):
    P = re.search(r"collect8-(C\d+)-benign", f).group(1)
    t = open(f).read()
    try:
        d = json.loads(t[t.index("["):t.rindex("]") + 1])
        rows.append("%s-9 benign: %s" % (P, [{k: r.get(k) for k in ("accepted", "status", "demo_unchanged_rc", "demo_changed_rc", "suite")} for r in d]))
    except ValueError:
        rows.append("%s-9 benign (running / unreadable)" % P)
print("\n".join(rows))
