#!/venv/bin/python
"""Regenerate section 9 of DESIGN.md (between the SEED-TABLE markers) from /verif/seeded/*/meta.json."""
import json
import os
import re
VERIF = os.path.dirname(os.path.dirname(os.path.abspath(__file__)))


def first_sentence(t, n=170):
    t = " ".join(t.split())
    t = re.sub(r"^#+\s*\S.*?\s(?=[A-Z`])", "", t, count=1) if t.startswith("#") else t
    return (t[:n] + "...") if len(t) > n else t


def main():
    rows = []
    sd = os.path.join(VERIF, "seeded")
    for sid in sorted(os.listdir(sd)):
        mp = os.path.join(sd, sid, "meta.json")
        if not os.path.exists(mp):
            continue
        m = json.load(open(mp))
        pf = os.path.join(sd, sid, "patch.diff")
        files = sorted(set(re.findall(r"^\+\+\+ b/(\S+)", open(pf).read(), re.M)))
        det = m.get("detected_by", {})
        own = m.get("detected_by_own_property")
        caught = "; ".join("%s: %s" % (p, ", ".join(r)) for p, r in sorted(det.items())) or ("undecided (exit 2) in %s" % m.get("undecided_in") if m.get("undecided_in") else "**not caught**")
        rows.append((sid, m.get("property"), ", ".join(f.replace("xitorch/", "") for f in files), caught, "yes" if own else ("other property only" if det else "no"),
                     m.get("strengthened", "")))
    out = ["| id | property | file(s) changed | caught by (rules) | own check | check strengthened for it |", "|---|---|---|---|---|---|"]
    for r in rows:
        out.append("| %s | %s | %s | %s | %s | %s |" % r)
    n = len(rows)
    own = sum(1 for r in rows if r[4] == "yes")
    oth = sum(1 for r in rows if r[4] == "other property only")
    out.append("")
    out.append("Totals: %d seeded changes kept; %d caught by the property's own check, %d only by another property's check, %d not caught." % (n, own, oth, n - own - oth))
    p = os.path.join(VERIF, "DESIGN.md")
    s = open(p).read()
    a, b = "<!-- SEED-TABLE-BEGIN -->", "<!-- SEED-TABLE-END -->"
    i, j = s.index(a) + len(a), s.index(b)
    s = s[:i] + "\n" + "\n".join(out) + "\n" + s[j:]
    open(p, "w").write(s)
    print("\n".join(out[-1:]))


if __name__ == "__main__":
    main()
