#!/venv/bin/python
"""Compare a junit xml of the repository's suite with /root/.vp/BASELINE.json (stable_pass must still pass)."""
import json, sys, xml.etree.ElementTree as ET
xmlp = sys.argv[1]
base = json.load(open('/root/.vp/BASELINE.json'))
stable = set(base['stable_pass'])
res = {}
for tc in ET.parse(xmlp).getroot().iter('testcase'):
    name = "%s::%s" % (tc.get('classname'), tc.get('name'))
    st = 'pass'
    for ch in tc:
        if ch.tag in ('failure', 'error'):
            st = 'fail'
        elif ch.tag == 'skipped':
            st = 'skip'
    res[name] = st
partial = '--partial' in sys.argv
bad = sorted(n for n in stable if res.get(n) != 'pass' and (not partial or n in res))
newpass = sorted(n for n, s in res.items() if s == 'pass' and n not in stable)
print("stable_pass: %d, of which passing now: %d" % (len(stable), len(stable) - len(bad)))
for n in bad:
    print("  REGRESSION", n, res.get(n))
print("passing but not in stable list: %d" % len(newpass))
for n in newpass:
    print("  +", n)
sys.exit(1 if bad else 0)
