#!/venv/bin/python
"""Run the checks against the behaviour-preserving refactorings kept under /verif/benign/<id>/patch.diff (produced by independent
sub-agents, each verified by its author: demo passes before and after, 448 baseline tests pass).  Each patch is applied to a scratch
copy of /repo's current tree; every check is expected to stay silent.  Writes benign/STATUS.json and prints a summary.
usage: benign_check.py [--all-props] [id ...]"""
import json
import os
import shutil
import sys
from concurrent.futures import ProcessPoolExecutor

VERIF = os.path.dirname(os.path.dirname(os.path.abspath(__file__)))
sys.path.insert(0, os.path.join(VERIF, "selftest"))
import harness  # noqa: E402
import glob  # noqa: E402

PROPS = sorted(os.path.basename(p)[:-3].upper() for p in glob.glob(os.path.join(VERIF, "xv/props/c*.py")))
ALL = "--all-props" in sys.argv


def one(bid):
    pf = os.path.join(VERIF, "benign", bid, "patch.diff")
    root = harness.make_scratch("/repo")
    try:
        if not harness.apply_patch(root, pf):
            return bid, "noapply", {}
        fired = {}
        for q in (PROPS if ALL else [bid.split("-")[0]]):
            rc, out = harness.run_check(q, root)
            if rc != 0:
                lines = [ln.strip()[:300] for ln in out.splitlines() if ln.strip().startswith("xitorch/") or "ANALYSIS-ERROR" in ln]
                fired[q] = dict(rc=rc, first=lines[:3])
        return bid, "ok", fired
    finally:
        shutil.rmtree(root, ignore_errors=True)


def main():
    ids = [a for a in sys.argv[1:] if not a.startswith("--")] or sorted(os.listdir(os.path.join(VERIF, "benign")))
    ids = [i for i in ids if os.path.exists(os.path.join(VERIF, "benign", i, "patch.diff"))]
    with ProcessPoolExecutor(max_workers=15) as ex:
        res = list(ex.map(one, ids))
    status = {}
    silent = alarm = undecided = noapply = 0
    for bid, st, fired in res:
        if st == "noapply":
            noapply += 1
            status[bid] = dict(status="patch does not apply to the current tree (the tree was repaired after the patch was written)")
            continue
        if not fired:
            silent += 1
            status[bid] = dict(status="silent")
        elif any(v["rc"] == 1 for v in fired.values()):
            alarm += 1
            status[bid] = dict(status="FALSE ALARM", fired=fired)
        else:
            undecided += 1
            status[bid] = dict(status="undecided (exit 2)", fired=fired)
        if fired:
            print("%-7s %s" % (bid, status[bid]["status"]))
            for q, v in fired.items():
                for l in v["first"][:2]:
                    print("        %s: %s" % (q, l[:230]))
    print("benign refactorings: %d applied; silent %d, undecided %d, false alarm %d; %d do not apply" % (silent + alarm + undecided, silent, undecided, alarm, noapply))
    by_round = {}
    for bid, st_ in status.items():
        k_ = int(bid.split("-")[1])
        rnd = "round 4" if k_ <= 4 else ("round 5 (held out: written after the rules were generalised)" if k_ <= 7 else "rounds 6 and 7 (held out)")
        d_ = by_round.setdefault(rnd, dict(silent=0, undecided=0, false_alarm=0, noapply=0))
        key = "silent" if st_["status"] == "silent" else ("false_alarm" if st_["status"] == "FALSE ALARM" else ("undecided" if st_["status"].startswith("undecided") else "noapply"))
        d_[key] += 1
    for rnd, d_ in sorted(by_round.items()):
        print("  %s: %s" % (rnd, d_))
    if len(ids) > 40:
        with open(os.path.join(VERIF, "benign", "STATUS.json"), "w") as f:
            json.dump(dict(by_round=by_round, summary=dict(applied=silent + alarm + undecided, silent=silent, undecided=undecided, false_alarm=alarm, noapply=noapply,
                                        scope="all checks" if ALL else "the property's own check"), changes=status), f, indent=1, sort_keys=True)
    return 0


if __name__ == "__main__":
    sys.exit(main())
