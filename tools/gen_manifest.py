#!/venv/bin/python
"""Generate /verif/MANIFEST.json from the implemented property modules (xv/props/cXX.py)."""
import importlib
import json
import os
import sys

HERE = os.path.dirname(os.path.abspath(__file__))
VERIF = os.path.dirname(HERE)
sys.path.insert(0, VERIF)

ALL = ["C%02d" % i for i in range(1, 21)]
NA = {}
TECH = {
    "C01": "CFG typestate (warn-or-converged), def-use provenance of the stopping threshold, sibling protocol cross-check; operator-shape domain and Hermitian-flag truth table of composed operators; substitution-layer rules; discarded-result / None-by-truthiness lints; fall-back discipline of composed operators (capability-guard dominance), un-swap decided by path conditions; divisor guards of the Krylov recurrences replace exact zeros only (C01-G); exact element-wise test of the zero right-hand-side shortcut",
    "C02": "autograd-Function contract rules over ast (arity, None slots, create_graph, allow_unused, option splat, layout), Hermitian-adjoint idiom, sign parity; saved-output identity (AC12), abstract dictionary semantics of the option merge, substitution-layer rules; taint analysis: cotangent values never steer control flow (AC16); normal-equation rule of the inner solve; segment lengths of backward's starred results on every path (AC1-L); Krylov-loop typestate / threshold / divisor-guard rules of the inner solve (LS-*); exact zero-shortcut test",
    "C03": "CFG typestate + path-wise value numbering (returned-is-checked, zero-residual shortcut), best-point bookkeeping; truth table of the termination predicate with free atoms; all-element-norm rule of the termination test, tolerance-guard lint",
    "C04": "autograd-Function contract rules, implicit-function-theorem system shape, useobjparams pairing; truth table of the identical-parameters predicate, refresh-source rule, substitution-layer rules; cotangent-value taint rule (AC16), normal-equation rule of the inner solve, dispatch-over-kinds and restore-pairing rules of the substitution layer; Krylov-loop typestate / threshold / divisor-guard rules of the inner solve (LS-*)",
    "C05": "non-commutative word normalisation of the generalised-eigenproblem reduction and of tallqr, slice/table agreement, Rayleigh-Ritz structure of Davidson, Gram/factor pairing of svd; conjugated-transpose idiom and operator algebra of linop.py; slice bounds as polynomials; single-producer rule for degen_symeig's eigenpairs (every reaching definition is torch.linalg.eigh)",
    "C06": "autograd-Function contract of symeig_torchfcn / degen_symeig, polynomial normal form of the A and M pull-back cotangents, projector branch cross-check, dense backward structure; substitution-layer rules, abstract dictionary semantics of the option merge; cotangent-value taint rule (AC16) with the diagnostic-arm idiom, normal-equation rule of the inner solve; Krylov-loop typestate / threshold / divisor-guard rules of the inner solve (LS-*)",
    "C07": "exact rational arithmetic on the tableau literals: Butcher order conditions by rooted trees; role/taint check of the steppers; abstract lookup semantics of get_method, tolerance provenance, conversions as opaque atoms; partial evaluation of the explicit stepper on the callers' concrete tableaux (specialising evaluator, loops over constants unrolled, user function an uninterpreted atom)",
    "C08": "autograd-Function contract rules, alias (taint) analysis for in-place updates of apply outputs; time-reversal case split of the adaptive solver, substitution-layer rules; cotangent-value taint rule (AC16), provenance of pull-back inputs (AC13), evaluator found by role",
    "C09": "layout agreement between wrappers and Function.forward, sibling decoration, dispatch exhaustiveness; one-context rule, one-copy-per-slot rule, identity-keyed de-duplication",
    "C10": "who-may-call table, install/restore pairing on a CFG with exceptional edges (must-pass-through in finally), with-only use; truth tables of the snapshot/restore traversal criteria over the dtype domain; copy-protocol rule",
    "C11": "capability-guard dominance (CFG dominators), per-class cache rule, validation dominance, table agreement of parameter names; capability properties vs __new__ flags, H-wrapping rule; in-place receivers that are an operand's product result",
    "C12": "polynomial normal form of the affine node/weight map, index-set/pairing analysis of the accumulation loop, substitution table; tolerance-guard lint",
    "C13": "keyword-swallow rule, isinstance-after-coercion reaching definitions, negative-count slicing, Leibniz sign/role check; abstract dictionary semantics of the option merge, zero-filler shape/dtype/device rule; cotangent-value taint rule (AC16), provenance of pull-back inputs (AC13)",
    "C14": "polynomial normal form: both evaluation branches equal the Hermite / linear interpolant; mode-table agreement; shape domain for value extrapolation; None-by-truthiness with inter-procedural optional-ness",
    "C15": "symbolic shape domain exhaustive over rank x dim x keepdim; interval analysis of stores; exact per-interval weights; tolerance-guard lint, import-time tensor constants; state-holder table incl. in-place updates through a local view of an attribute",
    "C16": "unused-parameter rule, sampler protocol cross-check, linear trip counts, autograd contract; TensorPacker tiling rule, substitution-layer rules; symbolic chain states with a Metropolis oracle, cotangent-value taint rule (AC16); samples-by-value rule (a step that works in place returns the same object)",
    "C17": "validation dominance, shape roles, cache-key coverage (table agreement), autograd contract; refresh-source and unconditional connect_graph rules, substitution-layer rules",
    "C18": "dispatch discipline: who-subscripts-tables, lower-case keys, lower-cased pre-dispatch typestate, call contract, no-grad context; abstract lookup / merge semantics over symbolic dictionaries, method-kind truth table, catch-all rule; exact element-wise test of the zero right-hand-side shortcut that bypasses the selected method",
    "C19": "reference-cycle idioms: outputs on ctx, closures capturing self stored on self, self-referential closures; layout-helper-keeps-no-tensors rule",
    "C20": "traversal agreement of sibling functions, fresh-copy effect analysis, rejection dominance; copy-protocol rule; abstract round trip over nested containers incl. list / dict subclasses with an instance dictionary",
}


def main():
    checks = []
    na = []
    for pid in ALL:
        if pid in NA:
            na.append(dict(property_id=pid, reason=NA[pid]))
            continue
        try:
            mod = importlib.import_module("xv.props.%s" % pid.lower())
        except ModuleNotFoundError:
            na.append(dict(property_id=pid, reason="check under construction (DESIGN.md section 3 describes the planned static rules); nothing is claimed yet"))
            continue
        checks.append(dict(
            property_id=pid,
            quick_cmd="./check %s --tier quick" % pid,
            thorough_cmd="./check %s --tier thorough" % pid,
            evidence_file="/verif/evidence/%s.json" % pid,
            replay_cmd_template="./check %s --replay {path}" % pid,
            engine="xv",
            level_claimed=dict(category="other",
                               text=("Static analysis of /repo's current source (ast, own CFG/dataflow/abstract domains; nothing is "
                                     "executed). Decides the structural necessary conditions named in the evidence for every path/site "
                                     "at once; does not decide numerical behaviour. ") + getattr(mod, "EXPLANATION", "")[:3000],
                               design_ref="DESIGN.md section 3, %s" % pid),
            level_note="Trusted base: CPython's ast, the rule tables frozen in xv/ (confirmed by reading), torch/numpy/scipy "
                       "primitives behaving as documented. " + "; ".join(getattr(mod, "ASSUMPTIONS", [])),
            technique="static analysis: " + TECH.get(pid, "ast rules"),
        ))
    man = dict(
        version=1,
        setup_cmd="/venv/bin/python -c \"import ast,sys; sys.path.insert(0,'/verif'); import xv.model\"",
        hooks=dict(guard="XITORCH_VERIF", enable="none needed: the checks only parse the sources (no hooks in /repo)",
                   baseline_off_cmd="cd /repo && /venv/bin/python -m pytest -ra -q -p no:cacheprovider --timeout=900 --continue-on-collection-errors",
                   source_commits=[], add_only=True),
        engines=[dict(name="xv", path="/verif/xv", serves_properties=[c["property_id"] for c in checks],
                      kind_free_text="repository-specific static analyser: source model + resolver, statement CFG with exceptional edges, "
                                     "typestate/path enumeration, value numbering, autograd-Function contract rules, exact-arithmetic and "
                                     "polynomial/shape abstract domains; mutation self-validation in the thorough tier")],
        checks=checks,
        notes="Technique family: static analysis only. Exit 0 ok / 1 VIOLATION / 2 ANALYSIS-ERROR (undecidable on this tree: vanished "
              "anchor, too few rule instances, unsupported construct). Known findings: /verif/known_findings.json. "
              "Self-test: /venv/bin/python selftest/harness.py",
        not_applicable=na,
    )
    with open(os.path.join(VERIF, "MANIFEST.json"), "w") as f:
        json.dump(man, f, indent=1)
    print("MANIFEST.json: %d checks, %d not_applicable" % (len(checks), len(na)))
    try:
        import jsonschema
        jsonschema.validate(man, json.load(open("/root/.vp/MANIFEST.schema.json")))
        print("schema: valid")
    except ImportError:
        print("schema: jsonschema not available in this interpreter; run with python3-vt to validate")


if __name__ == "__main__":
    main()
