#!/venv/bin/python
"""Generate /verif/MANIFEST.json from the implemented property modules (xv/props/cXX.py)."""
import importlib
import json
import os
import sys

HERE = os.path.dirname(os.path.abspath(__file__))
VERIF = os.path.dirname(HERE)
sys.path.insert(0, VERIF)

ALL = ["C%02d" % i for i in range(1, 21)]
NA = {}
TECH = {
    "C01": "CFG typestate (warn-or-converged), def-use provenance of the stopping threshold, sibling protocol cross-check",
    "C02": "autograd-Function contract rules over ast (arity, None slots, create_graph, allow_unused, option splat, layout), Hermitian-adjoint idiom, sign parity",
    "C03": "CFG typestate + path-wise value numbering (returned-is-checked, zero-residual shortcut), best-point bookkeeping",
    "C04": "autograd-Function contract rules, implicit-function-theorem system shape, useobjparams pairing",
    "C05": "non-commutative word normalisation of the generalised-eigenproblem reduction and of tallqr, slice/table agreement, Rayleigh-Ritz structure of Davidson, Gram/factor pairing of svd",
    "C06": "autograd-Function contract of symeig_torchfcn / degen_symeig, polynomial normal form of the A and M pull-back cotangents, projector branch cross-check, dense backward structure",
    "C07": "exact rational arithmetic on the tableau literals: Butcher order conditions by rooted trees; role/taint check of the steppers",
    "C08": "autograd-Function contract rules, alias (taint) analysis for in-place updates of apply outputs",
    "C09": "layout agreement between wrappers and Function.forward, sibling decoration, dispatch exhaustiveness",
    "C10": "who-may-call table, install/restore pairing on a CFG with exceptional edges (must-pass-through in finally), with-only use",
    "C11": "capability-guard dominance (CFG dominators), per-class cache rule, validation dominance, table agreement of parameter names",
    "C12": "polynomial normal form of the affine node/weight map, index-set/pairing analysis of the accumulation loop, substitution table",
    "C13": "keyword-swallow rule, isinstance-after-coercion reaching definitions, negative-count slicing, Leibniz sign/role check",
    "C14": "polynomial normal form: both evaluation branches equal the Hermite / linear interpolant; mode-table agreement",
    "C15": "symbolic shape domain exhaustive over rank x dim x keepdim; interval analysis of stores; exact per-interval weights",
    "C16": "unused-parameter rule, sampler protocol cross-check, linear trip counts, autograd contract",
    "C17": "validation dominance, shape roles, cache-key coverage (table agreement), autograd contract",
    "C18": "dispatch discipline: who-subscripts-tables, lower-case keys, lower-cased pre-dispatch typestate, call contract, no-grad context",
    "C19": "reference-cycle idioms: outputs on ctx, closures capturing self stored on self, self-referential closures",
    "C20": "traversal agreement of sibling functions, fresh-copy effect analysis, rejection dominance",
}


def main():
    checks = []
    na = []
    for pid in ALL:
        if pid in NA:
            na.append(dict(property_id=pid, reason=NA[pid]))
            continue
        try:
            mod = importlib.import_module("xv.props.%s" % pid.lower())
        except ModuleNotFoundError:
            na.append(dict(property_id=pid, reason="check under construction (DESIGN.md section 3 describes the planned static rules); nothing is claimed yet"))
            continue
        checks.append(dict(
            property_id=pid,
            quick_cmd="./check %s --tier quick" % pid,
            thorough_cmd="./check %s --tier thorough" % pid,
            evidence_file="/verif/evidence/%s.json" % pid,
            replay_cmd_template="./check %s --replay {path}" % pid,
            engine="xv",
            level_claimed=dict(category="other",
                               text=("Static analysis of /repo's current source (ast, own CFG/dataflow/abstract domains; nothing is "
                                     "executed). Decides the structural necessary conditions named in the evidence for every path/site "
                                     "at once; does not decide numerical behaviour. ") + getattr(mod, "EXPLANATION", "")[:900],
                               design_ref="DESIGN.md section 3, %s" % pid),
            level_note="Trusted base: CPython's ast, the rule tables frozen in xv/ (confirmed by reading), torch/numpy/scipy "
                       "primitives behaving as documented. " + "; ".join(getattr(mod, "ASSUMPTIONS", [])),
            technique="static analysis: " + TECH.get(pid, "ast rules"),
        ))
    man = dict(
        version=1,
        setup_cmd="/venv/bin/python -c \"import ast,sys; sys.path.insert(0,'/verif'); import xv.model\"",
        hooks=dict(guard="XITORCH_VERIF", enable="none needed: the checks only parse the sources (no hooks in /repo)",
                   baseline_off_cmd="cd /repo && /venv/bin/python -m pytest -ra -q -p no:cacheprovider --timeout=900 --continue-on-collection-errors",
                   source_commits=[], add_only=True),
        engines=[dict(name="xv", path="/verif/xv", serves_properties=[c["property_id"] for c in checks],
                      kind_free_text="repository-specific static analyser: source model + resolver, statement CFG with exceptional edges, "
                                     "typestate/path enumeration, value numbering, autograd-Function contract rules, exact-arithmetic and "
                                     "polynomial/shape abstract domains; mutation self-validation in the thorough tier")],
        checks=checks,
        notes="Technique family: static analysis only. Exit 0 ok / 1 VIOLATION / 2 ANALYSIS-ERROR (undecidable on this tree: vanished "
              "anchor, too few rule instances, unsupported construct). Known findings: /verif/known_findings.json. "
              "Self-test: /venv/bin/python selftest/harness.py",
        not_applicable=na,
    )
    with open(os.path.join(VERIF, "MANIFEST.json"), "w") as f:
        json.dump(man, f, indent=1)
    print("MANIFEST.json: %d checks, %d not_applicable" % (len(checks), len(na)))
    try:
        import jsonschema
        jsonschema.validate(man, json.load(open("/root/.vp/MANIFEST.schema.json")))
        print("schema: valid")
    except ImportError:
        print("schema: jsonschema not available in this interpreter; run with python3-vt to validate")


if __name__ == "__main__":
    main()
