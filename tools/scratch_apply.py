#!/venv/bin/python
"""Debug helper: copy /repo's tree to a scratch directory outside /repo and /verif, apply seeded/<id>/patch.diff or benign/<id>/patch.diff
and print the directory (remove it yourself: rm -rf <dir>).   usage: scratch_apply.py seeded|benign <id>"""
import os
import sys
VERIF = os.path.dirname(os.path.dirname(os.path.abspath(__file__)))
sys.path.insert(0, os.path.join(VERIF, "selftest"))
import harness  # noqa

kind, sid = sys.argv[1], sys.argv[2]
root = harness.make_scratch("/repo")
ok = harness.apply_patch(root, os.path.join(VERIF, kind, sid, "patch.diff"))
print(root if ok else "PATCH DOES NOT APPLY " + root)
