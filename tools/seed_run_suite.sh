#!/bin/bash
# usage: run_suite.sh <worktree>   -- runs the repository's test-suite in <worktree> and compares with the pinned baseline
wt="$1"; j=$(mktemp --suffix=.xml)
cd "$wt" && OMP_NUM_THREADS=1 /venv/bin/python -m pytest -q -p no:cacheprovider --timeout=900 -n 6 --junitxml="$j" >/dev/null 2>&1
/venv/bin/python /tmp/seed/baseline_compare.py "$j"; rc=$?
rm -f "$j"; find "$wt" -name __pycache__ -prune -exec rm -rf {} + ; exit $rc
